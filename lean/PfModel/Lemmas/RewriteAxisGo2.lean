import PfModel.Lemmas.RewriteAxisGo
/-!
`add_mapspec_axis` on a pipeline without prior MapSpecs (part 10): the specification of the recursion `addAxisGo`
(`go_spec`): it keeps `Good`, and afterwards every function that takes a name depending on the start name maps it.
-/
namespace PF.Rw
open PF PF.Map PF.C01 PF.Rw.Ax

section main
variable {fs : List RFunc} {p axis : String} (order : List String) (need : String → Nat)

/-- function `g` has been visited for `q`: it maps `q`, and everything that depends on its outputs is mapped by its takers -/
def Processed (fs : List RFunc) (τ : List String → Option MSpec) (q : String) (g : RFunc) : Prop :=
  (∃ ms, τ g.core.outputs = some ms ∧ ∃ a ∈ ms.inputs, a.name = q) ∧
  ∀ o ∈ g.core.outputs, ∀ x, Reach fs o x → Closed fs τ x

theorem Processed.mono {τ τ' : List String → Option MSpec} (h : Ext τ τ') {q : String} {g : RFunc}
    (hp : Processed fs τ q g) : Processed fs τ' q g := by
  obtain ⟨⟨ms, e, a, ha, hn⟩, h2⟩ := hp
  obtain ⟨ms', e', i'⟩ := h _ ms e
  obtain ⟨a', ha', hn'⟩ := i' a ha
  exact ⟨⟨ms', e', a', ha', hn'.trans hn⟩, fun o ho x hx => (h2 o ho x hx).mono h⟩

/-- the statement of `go_spec` for one fuel value -/
def GoSpec (fs : List RFunc) (p axis : String) (order : List String) (need : String → Nat) (fuel : Nat) : Prop :=
  ∀ (q : String) (τ : List String → Option MSpec) (dims : List (String × Nat)), Good fs p axis τ → DimsOK dims →
    Reach fs p q → LNt fs p τ q → need q ≤ fuel →
    ∃ τ' dims', addAxisGo axis order fuel q (fs.map (setSpecR τ), dims) = (fs.map (setSpecR τ'), dims') ∧
      Good fs p axis τ' ∧ DimsOK dims' ∧ Ext τ τ' ∧ ∀ x, Reach fs q x → Closed fs τ' x

/-- the loop over the outputs of a function that just got its MapSpec -/
theorem inner_loop (fuel : Nat) (IH : GoSpec fs p axis order need fuel) :
    ∀ (l : List String) (τ : List String → Option MSpec) (dims : List (String × Nat)), Good fs p axis τ → DimsOK dims →
      (∀ o ∈ l, Reach fs p o ∧ LNt fs p τ o ∧ need o ≤ fuel) →
      ∃ τ' dims', (l.map fun o => (⟨o, [some axis]⟩ : ASpec)).foldl
          (fun st o => addAxisGo axis order fuel o.name (st.1, (o.name, o.axes.length) :: st.2)) (fs.map (setSpecR τ), dims) =
            (fs.map (setSpecR τ'), dims') ∧
        Good fs p axis τ' ∧ DimsOK dims' ∧ Ext τ τ' ∧ ∀ o ∈ l, ∀ x, Reach fs o x → Closed fs τ' x := by
  intro l
  induction l with
  | nil => intro τ dims hG hd _; exact ⟨τ, dims, rfl, hG, hd, Ext.refl τ, fun o ho => by cases ho⟩
  | cons o l ih =>
    intro τ dims hG hd hl
    obtain ⟨h1, h2, h3⟩ := hl o List.mem_cons_self
    have hd1 : DimsOK ((o, 1) :: dims) := by
      intro e he
      rcases List.mem_cons.mp he with rfl | he
      · rfl
      · exact hd e he
    obtain ⟨τ1, dims1, e1, g1, d1, x1, c1⟩ := IH o τ ((o, 1) :: dims) hG hd1 h1 h2 h3
    obtain ⟨τ2, dims2, e2, g2, d2, x2, c2⟩ := ih τ1 dims1 g1 d1 (fun o' ho' =>
      ⟨(hl o' (List.mem_cons_of_mem _ ho')).1, LNt.mono x1 (hl o' (List.mem_cons_of_mem _ ho')).2.1, (hl o' (List.mem_cons_of_mem _ ho')).2.2⟩)
    refine ⟨τ2, dims2, ?_, g2, d2, Ext.trans x1 x2, ?_⟩
    · simp only [List.map_cons, List.foldl_cons, List.length_cons, List.length_nil, Nat.zero_add]
      rw [e1]
      exact e2
    · intro o' ho' x hx
      rcases List.mem_cons.mp ho' with rfl | ho'
      · exact (c1 x hx).mono x2
      · exact c2 o' ho' x hx

variable (hu : UniqueOutR fs) (hne : ∀ g ∈ fs, g.core.outputs ≠ [])
  (hneed : ∀ g ∈ fs, ∀ y ∈ freeParams g, ∀ o ∈ g.core.outputs, need o < need y)
include hu hne hneed

/-- one iteration of the loop over the functions -/
theorem step_spec (fuel : Nat) (IH : GoSpec fs p axis order need fuel) (q : String) (hrq : Reach fs p q) (hnq : need q ≤ fuel + 1) :
    ∀ (fo : String) (τ : List String → Option MSpec) (dims : List (String × Nat)), Good fs p axis τ → DimsOK dims → LNt fs p τ q →
      ∃ τ' dims', stepF axis order fuel q (fs.map (setSpecR τ), dims) fo = (fs.map (setSpecR τ'), dims') ∧
        Good fs p axis τ' ∧ DimsOK dims' ∧ Ext τ τ' ∧
        ∀ g ∈ fs, fo ∈ g.core.outputs → q ∈ freeParams g → Processed fs τ' q g := by
  intro fo τ dims hG hd hl
  unfold stepF
  simp only []
  rw [rproducer_setSpecR]
  cases hrp : rproducer fs fo with
  | none =>
    refine ⟨τ, dims, rfl, hG, hd, Ext.refl τ, ?_⟩
    intro g hg hfo _
    obtain ⟨c, hc⟩ := rproducer_isSome fs fo ⟨g, hg, hfo⟩
    rw [hrp] at hc; cases hc
  | some f0 =>
    obtain ⟨hf0, hfo0⟩ := rproducer_mem fs fo f0 hrp
    simp only [Option.map_some, freeParams_setSpecR]
    by_cases hq : q ∈ freeParams f0
    · have hc : (freeParams f0).contains q = true := by simpa using hq
      simp only [hc, Bool.not_true, Bool.false_eq_true, ↓reduceIte]
      obtain ⟨ins, hns, hins, hqin, h1, h2⟩ := newSpec_good τ hG f0 hf0 dims hd q
      rw [hns]
      simp only []
      rw [map_update]
      obtain ⟨gU, xU⟩ := good_upd hu hne τ hG f0 hf0 q hq hrq hl ins hins h1 h2
      generalize hτ1 : updT τ f0.core.outputs ⟨ins, f0.core.outputs.map fun o => (⟨o, [some axis]⟩ : ASpec)⟩ = τ1 at gU xU
      have hspec1 : τ1 f0.core.outputs = some ⟨ins, f0.core.outputs.map fun o => (⟨o, [some axis]⟩ : ASpec)⟩ := by
        rw [← hτ1]; simp [updT]
      obtain ⟨τ2, dims2, e2, g2, d2, x2, c2⟩ := inner_loop order need fuel IH f0.core.outputs τ1 dims gU hd (by
        intro o ho
        refine ⟨.step f0 hf0 q hq hrq o ho, Or.inr ⟨f0, hf0, by rw [hspec1]; rfl, ho⟩, ?_⟩
        have := hneed f0 hf0 q hq o ho
        omega)
      refine ⟨τ2, dims2, e2, g2, d2, Ext.trans xU x2, ?_⟩
      intro g hg hfog _
      have hgf : g = f0 := hu g hg f0 hf0 fo hfog hfo0
      subst hgf
      refine ⟨?_, c2⟩
      obtain ⟨ms', e', i'⟩ := x2 _ _ hspec1
      obtain ⟨a, ha, han⟩ := hqin
      obtain ⟨a', ha', han'⟩ := i' a ha
      exact ⟨ms', e', a', ha', han'.trans han⟩
    · have hc : (freeParams f0).contains q = false := by simpa using hq
      simp only [hc, Bool.not_false, ↓reduceIte]
      refine ⟨τ, dims, rfl, hG, hd, Ext.refl τ, ?_⟩
      intro g hg hfog hqg
      have hgf : g = f0 := hu g hg f0 hf0 fo hfog hfo0
      subst hgf
      exact absurd hqg hq

/-- the loop over the functions -/
theorem outer_loop (fuel : Nat) (IH : GoSpec fs p axis order need fuel) (q : String) (hrq : Reach fs p q) (hnq : need q ≤ fuel + 1) :
    ∀ (l : List String) (τ : List String → Option MSpec) (dims : List (String × Nat)), Good fs p axis τ → DimsOK dims → LNt fs p τ q →
      ∃ τ' dims', l.foldl (stepF axis order fuel q) (fs.map (setSpecR τ), dims) = (fs.map (setSpecR τ'), dims') ∧
        Good fs p axis τ' ∧ DimsOK dims' ∧ Ext τ τ' ∧
        ∀ fo ∈ l, ∀ g ∈ fs, fo ∈ g.core.outputs → q ∈ freeParams g → Processed fs τ' q g := by
  intro l
  induction l with
  | nil => intro τ dims hG hd _; exact ⟨τ, dims, rfl, hG, hd, Ext.refl τ, fun fo hfo => by cases hfo⟩
  | cons fo l ih =>
    intro τ dims hG hd hl
    obtain ⟨τ1, dims1, e1, g1, d1, x1, c1⟩ := step_spec order need hu hne hneed fuel IH q hrq hnq fo τ dims hG hd hl
    obtain ⟨τ2, dims2, e2, g2, d2, x2, c2⟩ := ih τ1 dims1 g1 d1 (LNt.mono x1 hl)
    refine ⟨τ2, dims2, ?_, g2, d2, Ext.trans x1 x2, ?_⟩
    · rw [List.foldl_cons, e1]; exact e2
    · intro fo' hfo' g hg hfog hqg
      rcases List.mem_cons.mp hfo' with rfl | hfo'
      · exact (c1 g hg hfog hqg).mono x2
      · exact c2 fo' hfo' g hg hfog hqg

variable (hcov : ∀ g ∈ fs, g.core.outputs.headD "" ∈ order)
include hcov

/-- **the recursion of `add_mapspec_axis`**: started on a name `q` that depends on `p`, with enough fuel, it keeps the
    invariant, only extends MapSpecs, and afterwards every function that takes a name depending on `q` maps that name -/
theorem go_spec : ∀ fuel, GoSpec fs p axis order need fuel := by
  intro fuel
  induction fuel with
  | zero =>
    intro q τ dims hG hd _ _ hn
    refine ⟨τ, dims, by simp [addAxisGo], hG, hd, Ext.refl τ, ?_⟩
    -- nothing takes `q`
    have hnone : ∀ x, Reach fs q x → ∀ g ∈ fs, x ∉ freeParams g := by
      intro x hx
      have : need x ≤ 0 := by
        induction hx with
        | root => exact hn
        | step g hg y hy _ o ho ih => have := hneed g hg y hy o ho; omega
      intro g hg hxg
      cases hgo : g.core.outputs with
      | nil => exact hne g hg hgo
      | cons o os =>
        have := hneed g hg x hxg o (by rw [hgo]; exact List.mem_cons_self)
        omega
    intro x hx g hg hxg
    exact absurd hxg (hnone x hx g hg)
  | succ fuel ih =>
    intro q τ dims hG hd hrq hl hn
    rw [addAxisGo_succ]
    obtain ⟨τ', dims', e, g', d', x', c'⟩ := outer_loop order need hu hne hneed fuel ih q hrq hn order τ dims hG hd hl
    refine ⟨τ', dims', e, g', d', x', ?_⟩
    intro x hx
    rcases hx.first with rfl | ⟨g, hg, hqg, o, ho, hox⟩
    · intro g hg hxg
      have hhead : g.core.outputs.headD "" ∈ g.core.outputs := by
        cases hgo : g.core.outputs with
        | nil => exact absurd hgo (hne g hg)
        | cons o os => simp
      exact (c' _ (hcov g hg) g hg hhead hxg).1
    · have hhead : g.core.outputs.headD "" ∈ g.core.outputs := by
        cases hgo : g.core.outputs with
        | nil => exact absurd hgo (hne g hg)
        | cons o os => simp
      exact (c' _ (hcov g hg) g hg hhead hqg).2 o ho x hox

end main
end PF.Rw
