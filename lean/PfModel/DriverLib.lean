/-
Shared plumbing for the JSON-lines drivers in `lean/Driver/*.lean`.

Protocol: one JSON object per input line `{"id": n, "m": "<entry>", "a": {...}}`; one per output line
`{"id": n, "r": <observation>}`, or `{"id": n, "bad": "<why>"}` when the request is malformed (a harness bug, never a
default), or `{"id": n, "skip": "<why>"}` when the input is outside the modelled fragment.
-/
import Lean.Data.Json

namespace PF.Drv
open Lean

abbrev R := Except String

def fld (j : Json) (k : String) : R Json :=
  match j.getObjVal? k with
  | .ok v => .ok v
  | .error _ => .error s!"missing field {k}"

def fld? (j : Json) (k : String) : Option Json :=
  match j.getObjVal? k with
  | .ok .null => none
  | .ok v => some v
  | .error _ => none

def asInt (j : Json) : R Int :=
  match j.getInt? with | .ok v => .ok v | .error e => .error s!"int expected: {e}"
def asNat (j : Json) : R Nat :=
  match j.getNat? with | .ok v => .ok v | .error e => .error s!"nat expected: {e}"
def asStr (j : Json) : R String :=
  match j.getStr? with | .ok v => .ok v | .error e => .error s!"string expected: {e}"
def asBool (j : Json) : R Bool :=
  match j.getBool? with | .ok v => .ok v | .error e => .error s!"bool expected: {e}"
def asArr (j : Json) : R (List Json) :=
  match j.getArr? with | .ok v => .ok v.toList | .error e => .error s!"array expected: {e}"

def asList {α} (f : Json → R α) (j : Json) : R (List α) := do
  let xs ← asArr j
  xs.mapM f

def asPair {α β} (f : Json → R α) (g : Json → R β) (j : Json) : R (α × β) := do
  match ← asArr j with
  | [a, b] => return (← f a, ← g b)
  | _ => .error "pair expected"

def asOpt {α} (f : Json → R α) (j : Json) : R (Option α) :=
  match j with
  | .null => .ok none
  | v => do return some (← f v)

def intF (j : Json) (k : String) : R Int := do asInt (← fld j k)
def natF (j : Json) (k : String) : R Nat := do asNat (← fld j k)
def strF (j : Json) (k : String) : R String := do asStr (← fld j k)
def boolF (j : Json) (k : String) : R Bool := do asBool (← fld j k)
def listF {α} (f : Json → R α) (j : Json) (k : String) : R (List α) := do asList f (← fld j k)
def optF {α} (f : Json → R α) (j : Json) (k : String) : R (Option α) :=
  match fld? j k with
  | none => .ok none
  | some v => do return some (← f v)

def jInt (n : Int) : Json := Json.num (JsonNumber.fromInt n)
def jNat (n : Nat) : Json := Json.num (JsonNumber.fromNat n)
def jStr (s : String) : Json := Json.str s
def jBool (b : Bool) : Json := Json.bool b
def jArr (l : List Json) : Json := Json.arr l.toArray
def jList {α} (f : α → Json) (l : List α) : Json := Json.arr (l.map f).toArray
def jOpt {α} (f : α → Json) : Option α → Json
  | none => Json.null
  | some v => f v
def jObj (l : List (String × Json)) : Json := Json.mkObj l
def jPair {α β} (f : α → Json) (g : β → Json) (p : α × β) : Json := jArr [f p.1, g p.2]

/-- The request loop: `handle m a` returns the observation, `.error` for a malformed request.
    A handler may return `{"skip": why}` objects itself. -/
partial def loop (handle : String → Json → R Json) : IO Unit := do
  let stdin ← IO.getStdin
  let stdout ← IO.getStdout
  let rec go : IO Unit := do
    let line ← stdin.getLine
    if line.isEmpty then return ()
    let t := line.trimAscii.toString
    if t.isEmpty then go else
    let out : Json :=
      match Json.parse t with
      | .error e => jObj [("id", Json.null), ("bad", jStr s!"json: {e}")]
      | .ok j =>
        let id := (j.getObjVal? "id").toOption.getD Json.null
        match (do let m ← strF j "m"; let a ← fld j "a"; handle m a) with
        | .ok r => jObj [("id", id), ("r", r)]
        | .error e => jObj [("id", id), ("bad", jStr e)]
    stdout.putStrLn out.compress
    go
  go
  stdout.flush

end PF.Drv
