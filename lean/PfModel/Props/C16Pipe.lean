import PfModel.Lemmas.Typing
import PfModel.Lemmas.TypingPipe
/-!
C16 (extension) — the pipeline clauses over a *pipeline description*: which (producer, consumer, parameter) triples
`validate_consistent_type_annotations` compares, with which annotations, and what that means for construction.
Model: `Model/TypingPipe.lean` (`visit`, `checkedEdges`, `constructP`); lemmas: `Lemmas/TypingPipe.lean`.
-/
namespace PF.C16
open PF.Typing

/-! ### what the loop visits -/

/-- the loop compares exactly the triples described by `Visited`: `dep` is another function fed by `node` through an unbound
    parameter, the parameter is annotated in `dep` (after renames), has an entry in `node.output_annotation`, and is not bound -/
theorem C16_visit_exact (fs : List Func) (c : CEdge) : c ∈ visit fs ↔ Visited fs c := mem_visit

/-- no (producer, consumer, parameter) triple is compared twice -/
theorem C16_visit_once (fs : List Func) : ((visit fs).map CEdge.key).Nodup := visit_keys_nodup fs

/-- Every edge of the pipeline whose parameter is annotated in the consumer and has an output-annotation entry in the producer is
    compared exactly once, with the producer's output annotation, the consumer's parameter annotation and the two MapSpecs
    (from which `wrapOut` derives the `Array[...]` wrapping). -/
theorem C16_edge_checked_once (fs : List Func) (i j : Nat) (p : String) (f g : Func) (o t : Hint)
    (w : Wired fs i j p f g) (ho : alookup p (outputAnnotation f) = some o) (ht : (p, t) ∈ paramAnnotations g) :
    ∃ c ∈ visit fs, c = ⟨i, j, p, o, t, f.mapspec, g.mapspec⟩ ∧ ∀ c' ∈ visit fs, c'.key = (i, j, p) → c' = c := by
  have hfeeds : feeds f g = true := by
    unfold feeds
    rw [List.any_eq_true]
    exact ⟨p, w.par, by rw [w.unbound]; simp [w.out]⟩
  have hc : (⟨i, j, p, o, t, f.mapspec, g.mapspec⟩ : CEdge) ∈ visit fs :=
    mem_visit.mpr ⟨f, g, w.hf, w.hg, w.ne, hfeeds, ht, ho, w.unbound, rfl, rfl⟩
  exact ⟨_, hc, rfl, fun c' hc' hk => pairwise_key_unique (visit_pairwise fs) c' hc' _ hc hk⟩

/-- Conversely, only edges of the pipeline are compared: a visited triple is an output of the producer that the consumer takes
    as an unbound parameter (for consumers whose annotated names are parameters). -/
theorem C16_visit_only_edges (fs : List Func) (c : CEdge) (hc : c ∈ visit fs) :
    ∃ f g, fs[c.prod]? = some f ∧ fs[c.cons]? = some g ∧ c.pm = f.mapspec ∧ c.cm = g.mapspec ∧
      alookup c.param (outputAnnotation f) = some c.out ∧ (c.param, c.inp) ∈ paramAnnotations g ∧
      (hintsAreParams g → Wired fs c.prod c.cons c.param f g) := by
  obtain ⟨f, g, hf, hg, hne, _, hm, ho, hb, h3, h4⟩ := mem_visit.mp hc
  refine ⟨f, g, hf, hg, h3, h4, ho, hm, fun hp => ⟨hf, hg, hne, ?_, ?_, hb⟩⟩
  · exact keys_outputAnnotation (by
      have := alookup_some_mem ho
      exact List.mem_map.mpr ⟨_, this, rfl⟩)
  · have := mem_mkDict hm
    simp only [List.mem_map] at this
    obtain ⟨⟨k, v⟩, hkv, e⟩ := this
    simp only [Prod.mk.injEq] at e
    rw [← e.1]
    exact hp k (List.mem_map.mpr ⟨_, hkv, rfl⟩)

/-- a parameter that is bound in the consumer is never compared (DF-C16-bound) -/
theorem C16_bound_not_checked (fs : List Func) (c : CEdge) (g : Func) (hc : c ∈ visit fs) (hg : fs[c.cons]? = some g) :
    g.bound.contains c.param = false := by
  obtain ⟨_, g', _, hg', _, _, _, _, hb, _, _⟩ := mem_visit.mp hc
  rw [hg] at hg'; cases hg'; exact hb

/-! ### the annotations of the outputs -/

/-- a `tuple[A, B, ..]` return hint is split per output name: the `k`-th name has the `k`-th argument; a name beyond the
    arguments has no entry and is therefore never compared -/
theorem C16_tuple_outputs (f : Func) (t : Ty) (ts : List Ty) (hk : f.kind = .plain) (htup : f.outIsTuple = true)
    (hr : f.ret = .ty (.gen .tuple (t :: ts))) (hn : f.outs.Nodup) :
    (∀ k (h1 : k < f.outs.length) (h2 : k < (t :: ts).length),
        alookup f.outs[k] (outputAnnotation f) = some (.ty (t :: ts)[k])) ∧
    (∀ k (h1 : k < f.outs.length), (t :: ts).length ≤ k → alookup f.outs[k] (outputAnnotation f) = none) := by
  have hkeys : keys ((f.outs.zip (t :: ts)).map (fun p => (p.1, Hint.ty p.2))) = (f.outs.zip (t :: ts)).map Prod.fst := by
    simp [keys, List.map_map, Function.comp]
  have hnd : (keys ((f.outs.zip (t :: ts)).map (fun p => (p.1, Hint.ty p.2)))).Nodup := by
    rw [hkeys]; exact List.Nodup.sublist (zip_fst_sublist _ _) hn
  have hoa : outputAnnotation f = (f.outs.zip (t :: ts)).map (fun p => (p.1, Hint.ty p.2)) := by
    unfold outputAnnotation; rw [hk, htup]; simp only [hr]; exact mkDict_of_nodup _ hnd
  constructor
  · intro k h1 h2
    rw [hoa]
    refine alookup_of_mem_nodup hnd (List.mem_map.mpr ⟨(f.outs[k], (t :: ts)[k]), ?_, rfl⟩)
    have hlt : k < (f.outs.zip (t :: ts)).length := by rw [List.length_zip]; omega
    have := List.getElem_mem hlt
    rwa [List.getElem_zip] at this
  · intro k h1 h2
    rw [hoa, alookup_none_iff, hkeys]
    intro hm
    obtain ⟨⟨a, b⟩, hab, e⟩ := List.mem_map.mp hm
    simp only at e; subst e
    obtain ⟨m, hm1, hm2⟩ := List.getElem_of_mem hab
    rw [List.getElem_zip] at hm2
    simp only [Prod.mk.injEq] at hm2
    rw [List.length_zip] at hm1
    have hm' : m < f.outs.length := by omega
    have hmts : m < (t :: ts).length := by omega
    have : m = k := (List.getElem_inj hn).mp hm2.1
    omega

/-- a single output carries the `return` hint; a class used as a function is annotated with the class itself; a `tuple[T, ...]`
    hint gives every name `T` (DF-C16-variadic) -/
theorem C16_single_output (f : Func) (n : String) (ho : f.outs = [n]) (htup : f.outIsTuple = false) :
    (∀ t, f.kind = .plain → f.ret = .ty t → outputAnnotation f = [(n, .ty t)]) ∧
    (f.kind = .plain → f.ret = .unres → outputAnnotation f = [(n, .unres)]) ∧
    (f.kind = .plain → f.ret = .missing → outputAnnotation f = [(n, .ty .noann)]) ∧
    (∀ c, f.kind = .cls c → outputAnnotation f = [(n, .ty c)]) := by
  refine ⟨?_, ?_, ?_, ?_⟩ <;> intros <;> simp_all [outputAnnotation, mkDict, dinsert, allMissing]

theorem C16_variadic_outputs (f : Func) (t : Ty) (hk : f.kind = .plain) (htup : f.outIsTuple = true) (hr : f.ret = .variadic t)
    (hn : f.outs.Nodup) : ∀ n ∈ f.outs, alookup n (outputAnnotation f) = some (.ty t) := by
  intro n hn'
  have hkeys : keys (f.outs.map (fun n => (n, Hint.ty t))) = f.outs := by
    simp only [keys, List.map_map]; exact List.map_id' _
  have hoa : outputAnnotation f = f.outs.map (fun n => (n, Hint.ty t)) := by
    unfold outputAnnotation; rw [hk, htup]; simp only [hr]; exact mkDict_of_nodup _ (by rw [hkeys]; exact hn)
  rw [hoa]
  exact alookup_of_mem_nodup (by rw [hkeys]; exact hn) (List.mem_map.mpr ⟨n, hn', rfl⟩)

/-- an output picker, a `NestedPipeFunc` (DF-C16-nested), a class with a tuple `output_name`, a tuple `output_name` with a
    return hint that is not a `tuple[...]`: the outputs have no annotation, so no comparison involving them can fail -/
theorem C16_unannotated_outputs (f : Func)
    (h : f.kind = .picker ∨ f.kind = .nested ∨ (∃ c, f.kind = .cls c ∧ f.outIsTuple = true)) :
    ∀ n o, alookup n (outputAnnotation f) = some o → o = .ty .noann := by
  intro n o ho
  have hm := alookup_some_mem ho
  have key : outputAnnotation f = allMissing f.outs := by
    rcases h with h | h | ⟨c, h, h'⟩ <;> unfold outputAnnotation <;> simp [*]
  rw [key] at hm
  have := mem_mkDict hm
  simp only [List.mem_map] at this
  obtain ⟨_, _, e⟩ := this
  cases e; rfl

/-! ### construction, over the description -/

/-- exact: with validation on, construction succeeds iff every compared triple with resolved annotations passes the edge check -/
theorem C16_desc_iff (fs : List Func) :
    constructP true fs = .ok ↔ ∀ c, Visited fs c → ∀ e, c.toEdge? = some e → edgeOk e = true := by
  unfold constructP construct checkedEdges
  simp only [if_true]
  constructor
  · intro h c hc e he
    have hall : ((visit fs).filterMap CEdge.toEdge?).all edgeOk = true := by
      cases hh : ((visit fs).filterMap CEdge.toEdge?).all edgeOk
      · simp [hh] at h
      · rfl
    exact List.all_eq_true.mp hall e (List.mem_filterMap.mpr ⟨c, mem_visit.mpr hc, he⟩)
  · intro h
    have : ((visit fs).filterMap CEdge.toEdge?).all edgeOk = true := by
      rw [List.all_eq_true]
      intro e he
      obtain ⟨c, hc, hce⟩ := List.mem_filterMap.mp he
      exact h c (mem_visit.mp hc) e hce
    simp [this]

/-- "A pipeline whose every edge is compatible is never rejected", over the description: if every edge `f --p--> g` whose
    two annotations are resolved passes the edge check (`edgeOk`: generated MapSpec, internal shape, or the output annotation —
    wrapped in `Array[...]` when reduced — is compatible with the parameter annotation), construction succeeds.  Edges with an
    `Unresolvable` hint on either side, bound parameters and names without an annotation entry demand nothing. -/
theorem C16_desc_accept (fs : List Func) (v : Bool) (hp : ∀ g ∈ fs, hintsAreParams g)
    (h : ∀ i j p f g o t, Wired fs i j p f g → alookup p (outputAnnotation f) = some (.ty o) → (p, .ty t) ∈ paramAnnotations g →
          edgeOk ⟨p, o, t, f.mapspec, g.mapspec⟩ = true) :
    constructP v fs = .ok := by
  cases v
  · simp [constructP, construct]
  · rw [C16_desc_iff]
    intro c hc e he
    obtain ⟨f, g, hf, hg, h3, h4, ho, hm, hw⟩ := C16_visit_only_edges fs c (mem_visit.mpr hc)
    have hgm : g ∈ fs := List.mem_of_getElem? hg
    obtain ⟨i, j, p, o, t, pm, cm⟩ := c
    cases o <;> cases t <;> simp [CEdge.toEdge?] at he
    subst he
    simp only at h3 h4 ho hm hw
    subst h3 h4
    exact h i j p f g _ _ (hw (hp g hgm)) ho hm

/-- "A pipeline with an incompatible edge between explicitly annotated functions with user-written MapSpecs is rejected with
    `TypeError`", over the description: an edge `f --p--> g` with resolved annotations `o`, `t`, MapSpecs that are not generated,
    no internal shape, and `wrapOut` not a subtype of `t`. -/
theorem C16_desc_reject (fs : List Func) (i j : Nat) (p : String) (f g : Func) (o t : Ty)
    (w : Wired fs i j p f g) (ho : alookup p (outputAnnotation f) = some (.ty o)) (ht : (p, .ty t) ∈ paramAnnotations g)
    (hg : mapspecIsGenerated ⟨p, o, t, f.mapspec, g.mapspec⟩ = false) (hi : withInternalShape ⟨p, o, t, f.mapspec, g.mapspec⟩ = false)
    (hs : ¬ Sub (wrapOut ⟨p, o, t, f.mapspec, g.mapspec⟩) t) :
    constructP true fs = .typeError := by
  obtain ⟨c, hc, rfl, _⟩ := C16_edge_checked_once fs i j p f g _ _ w ho ht
  have hmem : (⟨p, o, t, f.mapspec, g.mapspec⟩ : Edge) ∈ checkedEdges fs :=
    List.mem_filterMap.mpr ⟨_, hc, by simp [CEdge.toEdge?]⟩
  have hcompat : compat (wrapOut ⟨p, o, t, f.mapspec, g.mapspec⟩) t = false := by
    cases h : compat (wrapOut ⟨p, o, t, f.mapspec, g.mapspec⟩) t
    · rfl
    · exact absurd (compat_sub _ _ h) hs
  have : (checkedEdges fs).all edgeOk = false := by
    rw [Bool.eq_false_iff]; intro hall
    have := List.all_eq_true.mp hall _ hmem
    simp [edgeOk, hg, hi, hcompat] at this
  simp [constructP, construct, this]

/-- nothing is rejected when `validate_type_annotations=False` -/
theorem C16_desc_off (fs : List Func) : constructP false fs = .ok := by simp [constructP, construct]

/-- an `Unresolvable` hint on either side is skipped: such a triple is not among the compared edges -/
theorem C16_unresolvable_skipped (c : CEdge) (h : c.out = .unres ∨ c.inp = .unres) : c.toEdge? = none := by
  obtain ⟨i, j, p, o, t, pm, cm⟩ := c
  cases o <;> cases t <;> simp_all [CEdge.toEdge?]

/-! ### non-vacuity: `f0(x) -> (a, b)` annotated `tuple[int, str]`, `f1(a: int, b: int)` with `b` bound or not -/

def exF0 : Func := ⟨["a", "b"], true, ["x"], [], [], [("x", .ty (.base .int))], .ty (.gen .tuple [.base .int, .base .str]), .plain, none⟩
def exF1 (bound : List String) : Func :=
  ⟨["c"], false, ["a", "b"], bound, [], [("a", .ty (.base .int)), ("b", .ty (.base .int))], .ty (.base .int), .plain, none⟩

/-- `b: int` is fed by a `str` output: rejected -/
example : constructP true [exF0, exF1 []] = .typeError := by
  simp [constructP, construct, checkedEdges, visit, visitNode, visitParams, feeds, paramAnnotations, outputAnnotation, exF0, exF1,
    mkDict, dinsert, renamed, alookup, CEdge.toEdge?, edgeOk, mapspecIsGenerated, withInternalShape, wrapOut, axisIsReduced,
    List.range, List.range.loop, compat, Base.sub]
/-- ... but not when `b` is bound in the consumer (DF-C16-bound): only `a` is compared -/
example : constructP true [exF0, exF1 ["b"]] = .ok := by
  simp [constructP, construct, checkedEdges, visit, visitNode, visitParams, feeds, paramAnnotations, outputAnnotation, exF0, exF1,
    mkDict, dinsert, renamed, alookup, CEdge.toEdge?, edgeOk, mapspecIsGenerated, withInternalShape, wrapOut, axisIsReduced,
    List.range, List.range.loop, compat, Base.sub]
/-- the hypotheses of `C16_edge_checked_once` / `C16_desc_reject` are satisfiable -/
example : Wired [exF0, exF1 []] 0 1 "b" exF0 (exF1 []) ∧ hintsAreParams (exF1 []) ∧
    alookup "b" (outputAnnotation exF0) = some (.ty (.base .str)) ∧ ("b", Hint.ty (.base .int)) ∈ paramAnnotations (exF1 []) := by
  refine ⟨⟨rfl, rfl, by decide, by simp [exF0], by simp [exF1], by simp [exF1]⟩, ?_, ?_, ?_⟩
  · intro k hk
    simp [keys, exF1] at hk
    rcases hk with rfl | rfl <;> simp [renamed, alookup, exF1]
  · simp [outputAnnotation, exF0, mkDict, dinsert, alookup]
  · simp [paramAnnotations, exF1, mkDict, dinsert, renamed, alookup]

end PF.C16
