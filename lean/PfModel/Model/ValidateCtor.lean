/-
Model of the argument validation of one `PipeFunc(func, output_name, renames=…, defaults=…, bound=…, mapspec=…, internal_shape=…,
resources_variable=…, scope=…)` call (C12, "raise at construction"), `pipefunc/_pipefunc.py:175-220, 430-499, 526-596, 845-884, 1311-1319`.

`pipeFuncInit` lists the checks IN THE CODE'S ORDER:
  `_maybe_mapspec` → `MapSpec.__post_init__`;
  with `scope=`: `update_scope` (reads `unscoped_parameters`/`output_name`, refuses a scope that is a parameter/output name) →
  `update_renames(update_from="current")` (identifier checks of the current and of the scoped names, then `renames`, `defaults`, `bound`
  and the MapSpec are re-keyed: `applyScope`) → `_validate`;
  `_validate_names`; `_validate_mapspec`.
`internal_shape` is only stored by `__init__` (`_pipefunc.py:206`); it is validated in `map` (C12 `startMap`), so it is carried but unused.

Dictionaries are association lists with distinct keys (the driver refuses anything else).  `str.isidentifier` is modelled for ASCII
(letter or `_`, then letters/digits/`_`); the generator only produces ASCII.  `update_scope` builds its `renames` from a Python `set`:
when two *current* names translate to the same original key (only possible for calls that are ill-formed anyway: an output named like a
parameter, renames that are not one-to-one) the surviving entry depends on the set's iteration order; `applyScope` uses parameter order.
Core Lean only.
-/
import PfModel.Model.Validate
namespace PF.ValidateCtor
open PF PF.Map PF.Validate

/-! ### strings -/

/-- `s.split(".", 1)`: the part before the first dot and, if there is a dot, the rest -/
def splitDot : List Char → List Char × Option (List Char)
  | [] => ([], none)
  | c :: r => if c = '.' then ([], some r) else (c :: (splitDot r).1, (splitDot r).2)

/-- `s.split(".")` -/
def segments : List Char → List (List Char)
  | [] => [[]]
  | c :: r => if c = '.' then [] :: segments r else
    match segments r with
    | [] => [[c]]
    | s :: ss => (c :: s) :: ss

/-- `str.isidentifier` (ASCII) -/
def isIdent : List Char → Bool
  | [] => false
  | c :: r => (c.isAlpha || c = '_') && r.all fun d => d.isAlphanum || d = '_'

/-- `_validate_identifier` (`_pipefunc.py:1311-1319`) does not raise: split at the first dot, validate both parts recursively -/
def validIdent (s : String) : Bool := (segments s.toList).all isIdent

/-- `ArraySpec.__post_init__` (`map/_mapspec.py:52-63`) accepts the name: at most one scope -/
def arrayNameOk (s : String) : Bool :=
  match splitDot s.toList with
  | (a, some b) => isIdent a && isIdent b
  | (a, none) => isIdent a

/-- `name.split(".", 1)[-1]` (`unscoped_parameters`) -/
def unscope (s : String) : String :=
  match (splitDot s.toList).2 with
  | some r => String.ofList r
  | none => s

/-- `_prepend_name_with_scope(name, scope)` for a scope that is not `None` (`_pipefunc.py:1398-1409`) -/
def prependScope (name scope : String) : String :=
  if (scope.toList ++ ['.']).isPrefixOf name.toList then name
  else scope ++ "." ++ unscope name

/-- the scope of a parameter name, if it has one (`parameter_scopes`) -/
def scopeOf (s : String) : Option String :=
  match splitDot s.toList with
  | (a, some _) => some (String.ofList a)
  | _ => none

/-! ### the arguments -/

/-- the `output_name` argument -/
inductive OutName
  | str (s : String)          -- `"y"`
  | tup (l : List String)     -- `("y", "z")`
  | lst (l : List String)     -- `["y", "z"]`: iterable, but neither `str` nor `tuple`
  | bad                       -- an `int`, `None`: not even iterable
  deriving Repr, DecidableEq, Inhabited

/-- the names an iterable `output_name` lists -/
def OutName.names : OutName → List String
  | .str s => [s]
  | .tup l => l
  | .lst l => l
  | .bad => []

structure CtorArgs where
  sig : List String                    -- the wrapped function's own parameter names (`inspect.signature`)
  sigDefaults : List String            -- those with a default in the signature
  outputName : OutName
  renames : List (String × String)
  defaults : List String               -- keys of `defaults=` (the values play no part in validation)
  bound : List String                  -- keys of `bound=`
  mapspec : Option MSpec
  internal : Option (List Nat)         -- `internal_shape=`: stored, never validated by the constructor
  resourcesVariable : Option String
  scope : Option String
  deriving Repr, Inhabited

/-- `dict.get(k, k)` -/
def rget (d : List (String × String)) (k : String) : String := (alookup d k).getD k

/-- `dict[k] = v`: an existing key keeps its position -/
def dset : List (String × String) → String → String → List (String × String)
  | [], k, v => [(k, v)]
  | (k', v') :: r, k, v => if k' = k then (k, v) :: r else (k', v') :: dset r k v

/-- `original_parameters` (when `resources_variable` is a parameter; otherwise the property raises `KeyError`) -/
def origParams (a : CtorArgs) : List String :=
  match a.resourcesVariable with
  | none => a.sig
  | some r => a.sig.filter (· != r)

/-- `del parameters[self.resources_variable]` raises -/
def resourcesVariableMissing (a : CtorArgs) : Bool :=
  match a.resourcesVariable with
  | none => false
  | some r => !a.sig.contains r

/-- `PipeFunc.parameters`: `tuple(self._renames.get(k, k) for k in self.original_parameters)` -/
def parameters (a : CtorArgs) : List String := (origParams a).map (rget a.renames)

/-- `at_least_tuple(self.output_name)` with `_rename_output_name` -/
def outNames (a : CtorArgs) : List String := a.outputName.names.map (rget a.renames)

/-- keys of `PipeFunc.defaults` (`_pipefunc.py:313-319`; a dictionary: a repeated name keeps its first position) -/
def defaultsView (a : CtorArgs) : List String :=
  ((origParams a).filterMap fun o =>
    let n := rget a.renames o
    if a.defaults.contains n || (a.sigDefaults.contains o && !a.bound.contains n) then some n else none).eraseDups

/-! ### `MapSpec.__post_init__` -/

/-- as `PF.Validate.mapspecMalformed`, on the MapSpec itself -/
def msMalformed (ms : MSpec) : Bool :=
  ms.outputs.any (fun o => o.axes.any Option.isNone) ||
  !((ms.outputs.drop 1).all fun o => o.axes.filterMap id == (ms.outputs.headD default).axes.filterMap id) ||
  ms.inputIndices.any (fun i => !ms.outputIndices.contains i)

def mapspecBad (a : CtorArgs) : Bool :=
  match a.mapspec with
  | none => false
  | some ms => msMalformed ms

/-! ### `_validate_names` -/

/-- `set(self._defaults) & set(self._bound)` -/
def defaultsAndBound (a : CtorArgs) : Bool := a.defaults.any a.bound.contains

/-- `not isinstance(self._output_name, str | tuple)` -/
def outputTypeBad (a : CtorArgs) : Bool :=
  match a.outputName with
  | .str _ | .tup _ => false
  | _ => true

/-- `set(self.parameters) & set(at_least_tuple(self.output_name))` -/
def outputIsParameter (a : CtorArgs) : Bool := (parameters a).any (outNames a).contains

def hasDup : List String → Bool
  | [] => false
  | x :: r => r.contains x || hasDup r

/-- `len(self._renames) != len(self._inverse_renames)` -/
def renamesNotInjective (a : CtorArgs) : Bool := hasDup (a.renames.map (·.2))

/-- `set(renames) - set(tuple(self.original_parameters) + at_least_tuple(self._output_name))` -/
def renamesUnknownKey (a : CtorArgs) : Bool := a.renames.any fun kv => !(origParams a ++ a.outputName.names).contains kv.1

/-- `_validate_identifier` on every key and value of `renames` -/
def renamesNotIdentifier (a : CtorArgs) : Bool := a.renames.any fun kv => !validIdent kv.1 || !validIdent kv.2

def defaultsUnknown (a : CtorArgs) : Bool := a.defaults.any fun k => !(parameters a).contains k
def defaultsNotIdentifier (a : CtorArgs) : Bool := a.defaults.any fun k => !validIdent k
def boundUnknown (a : CtorArgs) : Bool := a.bound.any fun k => !(parameters a).contains k
def boundNotIdentifier (a : CtorArgs) : Bool := a.bound.any fun k => !validIdent k
def outputNotIdentifier (a : CtorArgs) : Bool := (outNames a).any fun o => !validIdent o

/-! ### `_validate_mapspec` -/

def msInputNotParam (a : CtorArgs) : Bool :=
  match a.mapspec with
  | none => false
  | some ms => ms.inputs.any fun s => !(parameters a).contains s.name

def msInputBound (a : CtorArgs) : Bool :=
  match a.mapspec with
  | none => false
  | some ms => ms.inputs.any fun s => a.bound.contains s.name

/-- `set(self.mapspec.output_names) != set(at_least_tuple(self.output_name))` -/
def msOutputsDiffer (a : CtorArgs) : Bool :=
  match a.mapspec with
  | none => false
  | some ms => !((ms.outputs.all fun s => (outNames a).contains s.name) && ((outNames a).all fun o => (ms.outputs.map (·.name)).contains o))

/-- one row per check: name, exception class, "the check fires" -/
abbrev Row := String × Exc × Bool

/-- `_validate_names` then `_validate_mapspec` -/
def validateTable (a : CtorArgs) : List Row :=
  [ ("defaults-and-bound", .value, defaultsAndBound a),
    ("output-name-type", .type, outputTypeBad a),
    ("resources-variable", .value, resourcesVariableMissing a),
    ("output-is-parameter", .value, outputIsParameter a),
    ("renames-not-one-to-one", .value, renamesNotInjective a),
    ("renames-unknown-key", .value, renamesUnknownKey a),
    ("renames-identifier", .value, renamesNotIdentifier a),
    ("defaults-unknown", .value, defaultsUnknown a),
    ("defaults-identifier", .value, defaultsNotIdentifier a),
    ("bound-unknown", .value, boundUnknown a),
    ("bound-identifier", .value, boundNotIdentifier a),
    ("output-identifier", .value, outputNotIdentifier a),
    ("mapspec-input-not-a-parameter", .value, msInputNotParam a),
    ("mapspec-input-bound", .value, msInputBound a),
    ("mapspec-outputs-differ", .value, msOutputsDiffer a) ]

/-! ### `scope=`: `update_scope(scope, inputs="*", outputs="*")` -/

/-- `scope in self.unscoped_parameters` -/
def scopeIsParameter (a : CtorArgs) (s : String) : Bool := ((parameters a).map unscope).contains s

/-- `_rename_output_name` iterates over an `output_name` that is not iterable -/
def scopeOutputNotIterable (a : CtorArgs) : Bool :=
  match a.outputName with
  | .bad => true
  | _ => false

/-- `scope in at_least_tuple(self.output_name)` -/
def scopeIsOutput (a : CtorArgs) (s : String) : Bool := (outNames a).contains s

/-- `assert all_parameters` -/
def scopeNothing (a : CtorArgs) : Bool := (parameters a ++ outNames a).isEmpty

/-- `update_renames` → `_validate_update(renames, "renames", allowed)`: every current name and every scoped name is checked -/
def scopeNotIdentifier (a : CtorArgs) (s : String) : Bool :=
  (parameters a ++ outNames a).any fun k => !validIdent k || !validIdent (prependScope k s)

/-- `self._inverse_renames.get(v, v)`: `{v: k for k, v in renames.items()}`, the last key wins -/
def inv (a : CtorArgs) (v : String) : String :=
  match a.renames.reverse.find? (·.2 == v) with
  | some kv => kv.1
  | none => v

/-- `dict(self._renames, **{inverse.get(k, k): scoped(k) for k in parameters ∪ outputs})` -/
def scopedRenames (a : CtorArgs) (s : String) : List (String × String) :=
  (parameters a ++ outNames a).foldl (fun d k => dset d (inv a k) (prependScope k s)) a.renames

/-- a name of `defaults`/`bound`/the MapSpec: back to the original name, forward through the new renames -/
def rekey (a : CtorArgs) (s : String) (n : String) : String := rget (scopedRenames a s) (inv a n)

def renameSpec (f : String → String) (x : ASpec) : ASpec := { name := f x.name, axes := x.axes }
def renameMS (f : String → String) (ms : MSpec) : MSpec := { inputs := ms.inputs.map (renameSpec f), outputs := ms.outputs.map (renameSpec f) }

/-- `self.mapspec.rename(old_inverse).rename(self._renames)` builds an `ArraySpec` whose name is refused -/
def scopeMapspecName (a : CtorArgs) (s : String) : Bool :=
  match a.mapspec with
  | none => false
  | some ms => (ms.inputs ++ ms.outputs).any fun x =>
      (inv a x.name != x.name && !arrayNameOk (inv a x.name)) ||
      (rekey a s x.name != inv a x.name && !arrayNameOk (rekey a s x.name))

/-- the arguments as `update_renames` leaves them -/
def applyScope (a : CtorArgs) (s : String) : CtorArgs :=
  { a with renames := scopedRenames a s, defaults := a.defaults.map (rekey a s), bound := a.bound.map (rekey a s),
           mapspec := a.mapspec.map (renameMS (rekey a s)), scope := none }

def scopeTable (a : CtorArgs) (s : String) : List Row :=
  [ ("scope-resources-variable", .key, resourcesVariableMissing a),
    ("scope-is-parameter", .value, scopeIsParameter a s),
    ("scope-output-type", .type, scopeOutputNotIterable a),
    ("scope-is-output", .value, scopeIsOutput a s),
    ("scope-nothing-to-scope", .other, scopeNothing a),
    ("scope-identifier", .value, scopeNotIdentifier a s),
    ("scope-mapspec-name", .value, scopeMapspecName a s) ]

/-- what `_validate` sees -/
def effective (a : CtorArgs) : CtorArgs :=
  match a.scope with
  | none => a
  | some s => applyScope a s

def scopeRows (a : CtorArgs) : List Row :=
  match a.scope with
  | none => []
  | some s => scopeTable a s

/-- every check of `PipeFunc.__init__`, in the code's order -/
def table (a : CtorArgs) : List Row :=
  ("mapspec-malformed", .value, mapspecBad a) :: (scopeRows a ++ validateTable (effective a))

def toStep (t : Row) : Step := .check t.1 (if t.2.2 then .error ⟨t.2.1, t.1⟩ else .ok ())

def pipeFuncInit (a : CtorArgs) : List Step := (table a).map toStep

/-- the verdict of `PipeFunc(...)` -/
def ctorResult (a : CtorArgs) : V Unit := (exec (pipeFuncInit a)).2

/-! ### `validate_scopes` (`_pipeline/_validation.py:87-95`) -/

/-- per function: (`parameter_scopes`, `parameters`, output names).  A scope some function uses is a parameter or output name of some function. -/
def scopeClash (fs : List (List String × List String × List String)) : Bool :=
  (fs.flatMap (·.1)).any fun sc => (fs.flatMap fun f => f.2.1 ++ f.2.2).contains sc

/-- `PipeFunc.parameter_scopes` -/
def parameterScopes (params : List String) : List String := params.filterMap scopeOf

end PF.ValidateCtor
