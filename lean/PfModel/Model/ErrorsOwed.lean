import PfModel.Model.Errors
/-!
C13 (catch round s5) — **what the clause "results completed before the failure remain loadable" owes, invocation by invocation.**

The failure models (`seqGen`, `poolGen`) say what the storage holds after a failed run *as the code writes it*.  `owedStore` is
the other direction, the text's own reading: given WHICH invocations completed (`done` — the harness reads them off the
implementation's own call log: the invocations that returned before the first raising one was entered), the elements those
invocations produced.  An element-wise invocation of a mapped function (`mapspec` with inputs) writes its own element
(`_run_iteration_and_process` → `_update_array`, `map/_run.py:478-505`): that element is owed.  Whole-value outputs and the arrays of
functions without mapspec inputs are written by `_process_generation`, which a failing generation never reaches: not listed here
(earlier generations are judged whole by the harness).
-/
namespace PF.Errors
open PF PF.Map

/-- is the element with external linear index `li` the result of a completed invocation?  (`tasksOf` lists the invocations of a
    function in submission order = row-major external index, the convention of `seqGen` / `workerSlots`) -/
def owedCell (done : Task → Bool) (ts : List Task) (li : Nat) : Bool :=
  match ts[li]? with
  | some t => done t
  | none => false

/-- does every invocation of `f` compute one element (a mapspec with inputs)? -/
def elementwise (f : MFunc) : Bool :=
  match f.mapspec with
  | some ms => !ms.inputs.isEmpty
  | none => false

/-- the elements of `f`'s outputs that the completed invocations produced -/
def owedSlots (done : Task → Bool) (f : MFunc) (r : FuncResult) : List (String × Slot) :=
  if elementwise f then keepSlots (owedCell done (tasksOf f r)) false r.slots else []

/-- … of every function of the run (`frs`: the functions with their failure-free results) -/
def owedStore (done : Task → Bool) (frs : List (MFunc × FuncResult)) : List (String × Slot) :=
  frs.flatMap fun fr => owedSlots done fr.1 fr.2

end PF.Errors
