/-
C02 on sessions: calls on ONE pipeline object interleaved with in-place edits (`update_defaults / update_bound / update_renames` of the
pipeline and of its member functions).  The object keeps cached tables (`Pipeline.defaults`, root arguments, argument combinations);
`cachedRun` answers from them, `freshRun` is the C02 model applied to the edited description (a freshly built pipeline).
-/
import PfModel.Lemmas.PipelineSession
namespace PF.C02
open PF PF.Pipe

/-- **Every answer of a session equals the answer of a freshly built pipeline over the edited functions** — for every
    description, every history of edits and queries (any length, any interleaving, whichever calls consulted `Pipeline.defaults`),
    starting from any object whose tables are coherent.  Full strength for the modelled tables and edits; what an edit does to the
    description (`applyEdit`) and that every real edit clears every table are tied to the code by the session stream. -/
theorem C02_session_fresh (s : PState) (hs : Coherent s) (h : List Step) : cachedRun s h = freshRun s.fs h := by
  induction h generalizing s with
  | nil => rfl
  | cons st rest ih =>
    obtain ⟨h1, h2, h3⟩ := cachedStep_fresh hs st
    show (cachedStep s st).1 :: cachedRun (cachedStep s st).2 rest = _
    rw [ih _ h2, h1, h3]
    rfl

/-- a newly built pipeline object: no table filled -/
theorem C02_session_fresh_init (fs : List Func) (h : List Step) : cachedRun (PState.init fs) h = freshRun fs h :=
  C02_session_fresh _ (coherent_init fs) h

example : Coherent (PState.init []) := coherent_init []

/-- the evaluation that reads the defaults from a table is `Pipeline.run` of the C02 model when the table is the true one -/
theorem C02_run_reads_defaults_table (fs : List Func) (kw : List (String × Val)) (req : Req) :
    runTopD (tableOf (pdefaults fs)) fs kw req = runTop fs kw req := runTopD_eq fs kw req

/-! the seeded change C02-s4-A as a machine: `PipeFunc.update_defaults` that does not clear the tables of its pipelines -/


/-- **without the invalidation the session is wrong**: the parameter that has just been given a default is reported missing
    (`decide`; replayed on the real code by the harness corpus and by the seeded change C02-s4-A) -/
theorem C02_session_stale_witness :
    (cachedRunI { memberDefaults := false } (PState.init demoFs) demo).map Answer.accepted = [true, true, false] ∧
    (freshRun demoFs demo).map Answer.accepted = [true, true, true] ∧
    (cachedRun (PState.init demoFs) demo).map Answer.accepted = [true, true, true] := by decide

/-- … and hence differs from the fresh pipeline's answers -/
theorem C02_session_stale_differs :
    cachedRunI { memberDefaults := false } (PState.init demoFs) demo ≠ freshRun demoFs demo := by
  intro h
  have := congrArg (fun l => l.map Answer.accepted) h
  revert this
  decide

/-- … while the same object that was never asked before the edit (no table filled) answers correctly even without it -/
theorem C02_session_stale_unfilled :
    (cachedRunI { memberDefaults := false } (PState.init demoFs) demo.tail).map Answer.accepted = [true, true] := by decide

end PF.C02
