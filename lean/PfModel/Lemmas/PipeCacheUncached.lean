import PfModel.Lemmas.PipeCache
/-! C09, extension: the cached run with no cached function IS the uncached run (`PF.Pipe.run`), errors included; and the
    bookkeeping of the `hit` flag (`None in used_parameters`) and of the hit log. -/
namespace PF.PipeCache
open PF PF.Pipe

variable {H C : Type}

/-- the part of the cached state that `PF.Pipe.run` has too -/
def CSt.toSt (s : CSt H C) : St := ⟨s.memo, s.calls, s.used⟩

/-- replace that part -/
def CSt.withSt (s : CSt H C) (t : St) : CSt H C := { s with memo := t.memo, calls := t.calls, used := t.used }

/-- an uncached result seen as a cached result that left cache, hit flag and logs alone -/
def liftR {α} (s : CSt H C) : Except Err (α × St) → Except Err (α × CSt H C)
  | .error e => .error e
  | .ok (a, t) => .ok (a, s.withSt t)

theorem argsWithC_uncached (rC : String → CSt H C → Except Err (Val × CSt H C)) (rU : String → St → Except Err (Val × St))
    (hr : ∀ p s, rC p s = liftR s (rU p s.toSt)) (fs : List Func) (kw : List (String × Val)) (f : Func) :
    ∀ ps (s : CSt H C), argsWithC rC fs kw f ps s = liftR s (argsWith rU fs kw f ps s.toSt) := by
  intro ps
  induction ps with
  | nil => intro s; rfl
  | cons pq ps ih =>
    obtain ⟨p, orig⟩ := pq
    intro s
    simp only [argsWithC, argsWith]
    cases hres : resolve fs kw f p with
    | missing => rfl
    | val v =>
      simp only []
      rw [ih]
      have e : (CSt.toSt ({ s with used := s.used ++ [p] } : CSt H C)) = { s.toSt with used := s.toSt.used ++ [p] } := rfl
      rw [e]
      cases argsWith rU fs kw f ps { s.toSt with used := s.toSt.used ++ [p] } with
      | error e => rfl
      | ok r => obtain ⟨rest, s2⟩ := r; rfl
    | upstream =>
      simp only []
      rw [hr]
      cases rU p s.toSt with
      | error e => rfl
      | ok r =>
        obtain ⟨v, t1⟩ := r
        simp only [liftR]
        rw [ih]
        have e : (CSt.toSt ({ s.withSt t1 with used := (s.withSt t1).used ++ [p] } : CSt H C)) = { t1 with used := t1.used ++ [p] } := rfl
        rw [e]
        cases argsWith rU fs kw f ps { t1 with used := t1.used ++ [p] } with
        | error e => rfl
        | ok r => obtain ⟨rest, s2⟩ := r; rfl

/-- **(7)** `runC` with no cached function is `PF.Pipe.run`: same result or the same error, the same memo, call log and
    used-parameter list, and cache, hit flag and logs untouched — whatever the container and the key computation. -/
theorem runC_uncached (P : Policy H C) (ck : List (String × Val) → Func → String → Option (Key H))
    (fs : List Func) (kw : List (String × Val)) (full : Bool) :
    ∀ n o (s : CSt H C), runC P (fun _ => false) ck fs kw full n o s = liftR s (run fs kw n o s.toSt) := by
  intro n
  induction n with
  | zero => intro o s; rfl
  | succ n ih =>
    intro o s
    rw [runC_succ, run_succ]
    have em : s.toSt.memo = s.memo := rfl
    rw [em]
    cases hm : alookup s.memo o with
    | some v => rfl
    | none =>
      simp only []
      cases hf : producer fs o with
      | none => rfl
      | some f =>
        simp only [Bool.false_eq_true, ↓reduceIte, lookupC]
        rw [argsWithC_uncached _ _ ih]
        cases argsWith (run fs kw n) fs kw f f.params s.toSt with
        | error e => rfl
        | ok r =>
          obtain ⟨args, t⟩ := r
          simp only [liftR]
          cases alookup (outVals f args) o with
          | none => rfl
          | some v => rfl

/-! ### the hit flag and the hit log -/

/-- what one evaluation does to the hit flag (`None in used_parameters`) and to the hit log: the log only grows; the flag
    is never reset; it is set exactly when a hit happens without `full_output` -/
structure HitFacts (full : Bool) (s s' : CSt H C) : Prop where
  grow : ∃ add, s'.hits = s.hits ++ add ∧ (add = [] → s'.hit = s.hit) ∧ (full = false → add ≠ [] → s'.hit = true)
  keep : s.hit = true → s'.hit = true
  fullKeeps : full = true → s'.hit = s.hit

theorem HitFacts.refl (full : Bool) (s : CSt H C) : HitFacts full s s :=
  ⟨⟨[], by simp, fun _ => rfl, fun _ h => absurd rfl h⟩, fun h => h, fun _ => rfl⟩

theorem HitFacts.trans {full : Bool} {s s1 s2 : CSt H C} (a : HitFacts full s s1) (b : HitFacts full s1 s2) : HitFacts full s s2 := by
  obtain ⟨a1, ea, na, fa⟩ := a.grow
  obtain ⟨b1, eb, nb, fb⟩ := b.grow
  refine ⟨⟨a1 ++ b1, by rw [eb, ea, List.append_assoc], ?_, ?_⟩, fun h => b.keep (a.keep h), fun h => (b.fullKeeps h).trans (a.fullKeeps h)⟩
  · intro e
    have e1 : a1 = [] := (List.append_eq_nil_iff.mp e).1
    have e2 : b1 = [] := (List.append_eq_nil_iff.mp e).2
    rw [nb e2, na e1]
  · intro hf hne
    cases b1 with
    | nil =>
      have : a1 ≠ [] := by simpa using hne
      rw [nb rfl]; exact fa hf this
    | cons x xs => exact fb hf (by simp)

def RecHit (full : Bool) (r : String → CSt H C → Except Err (Val × CSt H C)) : Prop :=
  ∀ o s v s', r o s = .ok (v, s') → HitFacts full s s'

theorem argsWithC_hit (full : Bool) (r : String → CSt H C → Except Err (Val × CSt H C)) (hr : RecHit full r)
    (fs : List Func) (kw : List (String × Val)) (f : Func) :
    ∀ ps (s : CSt H C) a s', argsWithC r fs kw f ps s = .ok (a, s') → HitFacts full s s' := by
  intro ps
  induction ps with
  | nil => intro s a s' h; simp [argsWithC] at h; rw [← h.2]; exact HitFacts.refl full s
  | cons pq ps ih =>
    obtain ⟨p, orig⟩ := pq
    intro s a s' h
    simp only [argsWithC] at h
    split at h
    · cases h
    · split at h
      · cases h
      · next rest s2 hrest =>
        simp only [Except.ok.injEq, Prod.mk.injEq] at h
        rw [← h.2]
        have t := ih _ _ _ hrest
        exact ⟨t.grow, t.keep, t.fullKeeps⟩
    · split at h
      · cases h
      · next v s1 hrun =>
        split at h
        · cases h
        · next rest s2 hrest =>
          simp only [Except.ok.injEq, Prod.mk.injEq] at h
          rw [← h.2]
          have t := ih _ _ _ hrest
          exact (hr _ _ _ _ hrun).trans ⟨t.grow, t.keep, t.fullKeeps⟩

theorem runC_hit (P : Policy H C) (cached : Func → Bool) (ck : List (String × Val) → Func → String → Option (Key H))
    (fs : List Func) (kw : List (String × Val)) (full : Bool) : ∀ n, RecHit full (runC P cached ck fs kw full n) := by
  intro n
  induction n with
  | zero => intro o s v s' h; simp [runC] at h
  | succ n ih =>
    intro o s v s' h
    rw [runC_succ] at h
    split at h
    · simp only [Except.ok.injEq, Prod.mk.injEq] at h; rw [← h.2]; exact HitFacts.refl full s
    · split at h
      · cases h
      · next f hf =>
        split at h
        · next K r c' hl =>
          cases hfull : full with
          | true =>
            simp only [hfull, ↓reduceIte] at h
            split at h
            · cases h
            · next a s2 hargs =>
              have h1 := argsWithC_hit full _ ih fs kw f _ _ _ _ (hfull ▸ hargs)
              split at h
              · simp only [Except.ok.injEq, Prod.mk.injEq] at h
                rw [← h.2]
                have h0 : HitFacts full s { s with memo := unpack f r ++ s.memo, cache := c', hits := s.hits ++ [K] } :=
                  ⟨⟨[K], rfl, by simp, fun hf' => by rw [hfull] at hf'; cases hf'⟩, fun h => h, fun _ => rfl⟩
                exact hfull ▸ (h0.trans h1)
              · cases h
          | false =>
            simp only [hfull, Bool.false_eq_true, ↓reduceIte] at h
            split at h
            · simp only [Except.ok.injEq, Prod.mk.injEq] at h
              rw [← h.2]
              exact ⟨⟨[K], rfl, by simp, fun _ _ => rfl⟩, fun _ => rfl, fun hf' => by cases hf'⟩
            · cases h
        · split at h
          · cases h
          · next args s1 hargs =>
            have h1 := argsWithC_hit full _ ih fs kw f _ _ _ _ hargs
            split at h
            · simp only [Except.ok.injEq, Prod.mk.injEq] at h
              rw [← h.2]
              obtain ⟨add, e1, e2, e3⟩ := h1.grow
              exact ⟨⟨add, e1, e2, e3⟩, h1.keep, h1.fullKeeps⟩
            · cases h

end PF.PipeCache
