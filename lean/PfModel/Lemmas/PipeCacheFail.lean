import PfModel.Model.PipeCacheFail
import PfModel.Lemmas.PipeCache
/-!
C09, extension: failing calls.  (1) `runF` is `runC` with the state kept on the error path (`dropS (runF …) = runC …`).
(2) Whatever a cached evaluation does — succeed or fail, wherever — every entry it stores is right (`Inv` is preserved):
the invariant is *conditional* goodness of the memo ("if the composition exists, the memo holds it"), which a hit of a right
entry preserves even when the uncached call would fail.
-/
namespace PF.PipeCache
open PF PF.Pipe

variable {H C : Type}

theorem runF_succ (P : Policy H C) (cached : Func → Bool) (ck : List (String × Val) → Func → String → Option (Key H))
    (fs : List Func) (kw : List (String × Val)) (full : Bool) (n : Nat) (o : String) (s : CSt H C) :
    runF P cached ck fs kw full (n+1) o s =
    match alookup s.memo o with
    | some v => .ok (v, s)
    | none =>
      match producer fs o with
      | none => .error (.noFunc o, s)
      | some f =>
        match lookupC P (if cached f then ck kw f o else none) s.cache with
        | some (k, r, c') =>
          if full then
            match argsWithF (runF P cached ck fs kw full n) fs kw f f.params
                { s with memo := unpack f r ++ s.memo, cache := c', hits := s.hits ++ [k] } with
            | .error e => .error e
            | .ok (_, s2) =>
              match alookup s2.memo o with
              | some v => .ok (v, s2)
              | none => .error (.noFunc o, s2)
          else
            match alookup (unpack f r ++ s.memo) o with
            | some v => .ok (v, { s with memo := unpack f r ++ s.memo, cache := c', hits := s.hits ++ [k], hit := true })
            | none => .error (.noFunc o, { s with memo := unpack f r ++ s.memo, cache := c', hits := s.hits ++ [k] })
        | none =>
          match argsWithF (runF P cached ck fs kw full n) fs kw f f.params s with
          | .error e => .error e
          | .ok (args, s') =>
            match alookup (outVals f args) o with
            | some v => .ok (v, { s' with memo := outVals f args ++ s'.memo, calls := s'.calls ++ [f.name],
                                          cache := storeC P (if cached f then ck kw f o else none) s'.cache (result f args),
                                          puts := logPut (if cached f then ck kw f o else none) s'.puts })
            | none => .error (.noFunc o, { s' with memo := outVals f args ++ s'.memo, calls := s'.calls ++ [f.name],
                                                      cache := storeC P (if cached f then ck kw f o else none) s'.cache (result f args),
                                                      puts := logPut (if cached f then ck kw f o else none) s'.puts }) := by
  rw [runF]; rfl

/-! ### `runF` refines `runC` -/

theorem argsWithF_drop (rF : String → CSt H C → Except (Err × CSt H C) (Val × CSt H C))
    (rC : String → CSt H C → Except Err (Val × CSt H C)) (hr : ∀ p s, dropS (rF p s) = rC p s)
    (fs : List Func) (kw : List (String × Val)) (f : Func) :
    ∀ ps (s : CSt H C), dropS (argsWithF rF fs kw f ps s) = argsWithC rC fs kw f ps s := by
  intro ps
  induction ps with
  | nil => intro s; rfl
  | cons pq ps ih =>
    obtain ⟨p, orig⟩ := pq
    intro s
    simp only [argsWithF, argsWithC]
    cases hres : resolve fs kw f p with
    | missing => rfl
    | val v =>
      simp only []
      have := ih { s with used := s.used ++ [p] }
      cases hx : argsWithF rF fs kw f ps { s with used := s.used ++ [p] } with
      | error e => obtain ⟨e1, st⟩ := e; rw [hx] at this; simp only [dropS] at this ⊢; rw [← this]
      | ok r => obtain ⟨rest, s2⟩ := r; rw [hx] at this; simp only [dropS] at this ⊢; rw [← this]
    | upstream =>
      simp only []
      have h1 := hr p s
      cases hy : rF p s with
      | error e => obtain ⟨e1, st⟩ := e; rw [hy] at h1; simp only [dropS] at h1 ⊢; rw [← h1]
      | ok r1 =>
        obtain ⟨v, s1⟩ := r1
        rw [hy] at h1
        simp only [dropS] at h1 ⊢
        rw [← h1]
        simp only []
        have := ih { s1 with used := s1.used ++ [p] }
        cases hx : argsWithF rF fs kw f ps { s1 with used := s1.used ++ [p] } with
        | error e => obtain ⟨e1, st⟩ := e; rw [hx] at this; simp only [dropS] at this ⊢; rw [← this]
        | ok r => obtain ⟨rest, s2⟩ := r; rw [hx] at this; simp only [dropS] at this ⊢; rw [← this]

/-- `runF` is `runC` with the state kept when the evaluation fails -/
theorem runF_drop (P : Policy H C) (cached : Func → Bool) (ck : List (String × Val) → Func → String → Option (Key H))
    (fs : List Func) (kw : List (String × Val)) (full : Bool) :
    ∀ n o (s : CSt H C), dropS (runF P cached ck fs kw full n o s) = runC P cached ck fs kw full n o s := by
  intro n
  induction n with
  | zero => intro o s; rfl
  | succ n ih =>
    intro o s
    rw [runF_succ, runC_succ]
    cases alookup s.memo o with
    | some v => rfl
    | none =>
      simp only []
      cases producer fs o with
      | none => rfl
      | some f =>
        simp only []
        cases lookupC P (if cached f then ck kw f o else none) s.cache with
        | some hit =>
          obtain ⟨K, r, c'⟩ := hit
          simp only []
          cases full with
          | true =>
            simp only [↓reduceIte]
            have := argsWithF_drop _ _ ih fs kw f f.params
              ({ s with memo := unpack f r ++ s.memo, cache := c', hits := s.hits ++ [K] } : CSt H C)
            cases hx : argsWithF (runF P cached ck fs kw true n) fs kw f f.params
                { s with memo := unpack f r ++ s.memo, cache := c', hits := s.hits ++ [K] } with
            | error e => obtain ⟨e1, st⟩ := e; rw [hx] at this; simp only [dropS] at this ⊢; rw [← this]
            | ok r2 =>
              obtain ⟨a, s2⟩ := r2
              rw [hx] at this
              simp only [dropS] at this ⊢
              rw [← this]
              simp only []
              cases alookup s2.memo o <;> rfl
          | false =>
            simp only [Bool.false_eq_true, ↓reduceIte]
            cases alookup (unpack f r ++ s.memo) o <;> rfl
        | none =>
          simp only []
          have := argsWithF_drop _ _ ih fs kw f f.params s
          cases hx : argsWithF (runF P cached ck fs kw full n) fs kw f f.params s with
          | error e => obtain ⟨e1, st⟩ := e; rw [hx] at this; simp only [dropS] at this ⊢; rw [← this]
          | ok r2 =>
            obtain ⟨args, s'⟩ := r2
            rw [hx] at this
            simp only [dropS] at this ⊢
            rw [← this]
            simp only []
            cases alookup (outVals f args) o <;> rfl

theorem runTopF_drop (P : Policy H C) (cached : Func → Bool) (ck : List (String × Val) → Func → String → Option (Key H))
    (fs : List Func) (c : C) (kw : List (String × Val)) (full : Bool) (o : String) :
    dropS (runTopF P cached ck fs c kw full o) = runTopC P cached ck fs c kw full o := by
  unfold runTopF runTopC
  cases (alookup kw o).isSome with
  | true => rfl
  | false =>
    simp only [Bool.false_eq_true, ↓reduceIte]
    have := runF_drop P cached ck fs kw full (fuelFor fs) o (initC kw c)
    cases hx : runF P cached ck fs kw full (fuelFor fs) o (initC kw c) with
    | error e => obtain ⟨e1, st⟩ := e; rw [hx] at this; simp only [dropS] at this ⊢; rw [← this]
    | ok r => obtain ⟨v, s⟩ := r; rw [hx] at this; simp only [dropS] at this ⊢; rw [← this]

/-! ### every entry stored by any evaluation — successful or not — is right -/

section Fail
variable (P : Policy H C) (h : Val → H) (cached : Func → Bool)
  (fs : List Func) (rank : String → Nat) (kw : List (String × Val)) (full : Bool)

/-- *if* the composition of a memoised name exists, the memo holds it (a hit of a right entry may put a value into the memo
    for a name whose composition fails for this very call; such a value is never contradicted) -/
def CondGood (s : CSt H C) : Prop :=
  ∀ p v, alookup kw p = none → alookup s.memo p = some v → ∀ k w, compose fs kw k p = .ok w → v = w

/-- what an evaluation guarantees, whether it succeeds or fails -/
def PostF (o : String) : Except (Err × CSt H C) (Val × CSt H C) → Prop
  | .ok (v, s') => (∀ k w, compose fs kw k o = .ok w → v = w) ∧ CondGood fs kw s' ∧ Inv P h fs s'.cache
  | .error (_, s') => Inv P h fs s'.cache

def PostArgsF (f : Func) (ps : List (String × String)) : Except (Err × CSt H C) (List (String × Val) × CSt H C) → Prop
  | .ok (args, s') => (∀ k args', composeArgsWith (compose fs kw k) fs kw f ps = .ok args' → args = args') ∧
      CondGood fs kw s' ∧ Inv P h fs s'.cache
  | .error (_, s') => Inv P h fs s'.cache

def RecF (r : String → CSt H C → Except (Err × CSt H C) (Val × CSt H C)) : Prop :=
  ∀ o s, alookup kw o = none → CondGood fs kw s → Inv P h fs s.cache → PostF P h fs kw o (r o s)

theorem argsWithF_post (r : String → CSt H C → Except (Err × CSt H C) (Val × CSt H C)) (hr : RecF P h fs kw r) (f : Func) :
    ∀ ps (s : CSt H C), CondGood fs kw s → Inv P h fs s.cache → PostArgsF P h fs kw f ps (argsWithF r fs kw f ps s) := by
  intro ps
  induction ps with
  | nil =>
    intro s hg hi
    refine ⟨?_, hg, hi⟩
    intro k args' hc
    simp only [composeArgsWith, Except.ok.injEq] at hc
    exact hc
  | cons pq ps ih =>
    obtain ⟨p, orig⟩ := pq
    intro s hg hi
    simp only [argsWithF]
    cases hres : resolve fs kw f p with
    | missing => exact hi
    | val v =>
      simp only []
      have := ih { s with used := s.used ++ [p] } hg hi
      cases hx : argsWithF r fs kw f ps { s with used := s.used ++ [p] } with
      | error e => obtain ⟨e1, st⟩ := e; rw [hx] at this; exact this
      | ok r2 =>
        obtain ⟨rest, s2⟩ := r2
        rw [hx] at this
        obtain ⟨ha, hg2, hi2⟩ := this
        refine ⟨?_, hg2, hi2⟩
        intro k args' hc
        simp only [composeArgsWith, hres] at hc
        cases hrest : composeArgsWith (compose fs kw k) fs kw f ps with
        | error e => simp [hrest] at hc
        | ok rest' =>
          simp only [hrest, Except.ok.injEq] at hc
          rw [← hc, ha k rest' hrest]
    | upstream =>
      simp only []
      obtain ⟨_, hkp, _⟩ := PF.PipeCache.resolve_upstream fs kw f p hres
      have h1 := hr p s hkp hg hi
      cases hy : r p s with
      | error e => obtain ⟨e1, st⟩ := e; rw [hy] at h1; exact h1
      | ok r1 =>
        obtain ⟨v, s1⟩ := r1
        rw [hy] at h1
        obtain ⟨hv, hg1, hi1⟩ := h1
        simp only []
        have := ih { s1 with used := s1.used ++ [p] } hg1 hi1
        cases hx : argsWithF r fs kw f ps { s1 with used := s1.used ++ [p] } with
        | error e => obtain ⟨e1, st⟩ := e; rw [hx] at this; exact this
        | ok r2 =>
          obtain ⟨rest, s2⟩ := r2
          rw [hx] at this
          obtain ⟨ha, hg2, hi2⟩ := this
          refine ⟨?_, hg2, hi2⟩
          intro k args' hc
          simp only [composeArgsWith, hres] at hc
          cases hcp : compose fs kw k p with
          | error e => simp [hcp] at hc
          | ok w =>
            simp only [hcp] at hc
            cases hrest : composeArgsWith (compose fs kw k) fs kw f ps with
            | error e => simp [hrest] at hc
            | ok rest' =>
              simp only [hrest, Except.ok.injEq] at hc
              rw [← hc, ha k rest' hrest, hv k w hcp]

/-- `valid_put` from the conditional premise: the stored arguments are the composition's arguments *if those exist* -/
theorem valid_put_cond (hinj : ∀ a b, h a = h b → a = b) (wf : WF fs rank)
    (f : Func) (o : String) (K : Key H) (args : List (String × Val))
    (hp : producer fs o = some f) (hk : computeKey h fs kw f o = some K)
    (ha : ∀ k args', composeArgsWith (compose fs kw k) fs kw f f.params = .ok args' → args = args') :
    Valid h fs K (result f args) := by
  intro f' o' kw' k v hp' hk' hc'
  obtain ⟨hf, ho⟩ := producer_mem fs o f hp
  obtain ⟨hf', ho'⟩ := producer_mem fs o' f' hp'
  have e1 := (computeKey_some h fs kw f o K hk).2.2
  have e2 := (computeKey_some h fs kw' f' o' K hk').2.2
  have hff : f = f' := wf.uniq f hf f' hf' o ho (by rw [← e2, e1]; exact ho)
  subst hff
  have hko : computeKey h fs kw f o' = some K := by
    rw [computeKey_congr_out h fs kw f o' o (by rw [hp, hp'])]; exact hk
  have hs := key_sound h hinj fs rank wf f hf kw kw' o' K hko hk' k
  rw [← hs] at hc'
  cases k with
  | zero => simp [compose] at hc'
  | succ k =>
    rw [compose_succ, hp'] at hc'
    simp only at hc'
    split at hc'
    · cases hc'
    · next args' ha' =>
      have := ha k args' ha'
      subst this
      rw [unpack_result]
      split at hc'
      · next w hw => injection hc' with e; rw [← e]; exact hw
      · cases hc'

theorem runF_post (hinj : ∀ a b, h a = h b → a = b) (wf : WF fs rank) :
    ∀ n, RecF P h fs kw (runF P cached (computeKey h fs) fs kw full n) := by
  intro n
  induction n with
  | zero => intro o s _ _ hi; exact hi
  | succ n ihn =>
    intro o s hko hg hi
    rw [runF_succ]
    cases hm : alookup s.memo o with
    | some w => exact ⟨fun k w' hc => hg o w hko hm k w' hc, hg, hi⟩
    | none =>
      simp only []
      cases hf : producer fs o with
      | none => exact hi
      | some f =>
        simp only []
        obtain ⟨hfm, hof⟩ := producer_mem fs o f hf
        have hkey : ∀ K, (if cached f then computeKey h fs kw f o else none) = some K → computeKey h fs kw f o = some K := by
          intro K hK
          cases hcf : cached f <;> simp [hcf] at hK
          exact hK
        generalize (if cached f then computeKey h fs kw f o else none) = key at hkey
        -- the values one evaluation of `f` yields, compared with the composition
        have hout : ∀ args, (∀ k args', composeArgsWith (compose fs kw k) fs kw f f.params = .ok args' → args = args') →
            ∀ q v, alookup (outVals f args) q = some v → ∀ k w, compose fs kw k q = .ok w → v = w := by
          intro args ha q v hq k w hc
          have hqm : q ∈ f.outputs := outVals_mem f args q v hq
          have hpq := producer_of_mem fs rank wf f hfm q hqm
          cases k with
          | zero => simp [compose] at hc
          | succ k =>
            rw [compose_succ, hpq] at hc
            simp only at hc
            split at hc
            · cases hc
            · next args' ha' =>
              have := ha k args' ha'
              subst this
              rw [hq] at hc
              injection hc
        cases hl : lookupC P key s.cache with
        | some hit =>
          obtain ⟨K, r, c'⟩ := hit
          simp only []
          obtain ⟨hK, hget⟩ := lookupC_some P key s.cache K r c' hl
          have hck := hkey K hK
          have hvalid : Valid h fs K r := hi K r (P.get_res _ _ _ _ hget)
          have hi1 : Inv P h fs c' := fun K' r' hr' => hi K' r' (P.get_sub _ _ _ _ hget K' r' hr')
          have hg1 : ∀ q v, alookup kw q = none → alookup (unpack f r ++ s.memo) q = some v →
              ∀ k w, compose fs kw k q = .ok w → v = w := by
            intro q v hq hqm k w hc
            rw [alookup_append] at hqm
            split at hqm
            · next v' hv' =>
              injection hqm with e; subst e
              have hqo := unpack_keys f r q v' hv'
              have hpq := producer_of_mem fs rank wf f hfm q hqo
              have hckq : computeKey h fs kw f q = some K := by
                rw [computeKey_congr_out h fs kw f q o (by rw [hpq, hf])]; exact hck
              have := hvalid f q kw k w hpq hckq hc
              rw [hv'] at this
              injection this
            · exact hg q v hq hqm k w hc
          by_cases hfull : full = true
          · rw [if_pos hfull]
            have := argsWithF_post P h fs kw _ ihn f f.params
              ({ s with memo := unpack f r ++ s.memo, cache := c', hits := s.hits ++ [K] } : CSt H C) hg1 hi1
            cases hx : argsWithF (runF P cached (computeKey h fs) fs kw full n) fs kw f f.params
                { s with memo := unpack f r ++ s.memo, cache := c', hits := s.hits ++ [K] } with
            | error e => obtain ⟨e1, st⟩ := e; rw [hx] at this; exact this
            | ok r2 =>
              obtain ⟨a, s2⟩ := r2
              rw [hx] at this
              obtain ⟨_, hg2, hi2⟩ := this
              simp only []
              cases hm2 : alookup s2.memo o with
              | none => exact hi2
              | some v => exact ⟨fun k w hc => hg2 o v hko hm2 k w hc, hg2, hi2⟩
          · rw [if_neg hfull]
            cases hm1 : alookup (unpack f r ++ s.memo) o with
            | none => exact hi1
            | some v => exact ⟨fun k w hc => hg1 o v hko hm1 k w hc, hg1, hi1⟩
        | none =>
          simp only []
          have := argsWithF_post P h fs kw _ ihn f f.params s hg hi
          cases hx : argsWithF (runF P cached (computeKey h fs) fs kw full n) fs kw f f.params s with
          | error e => obtain ⟨e1, st⟩ := e; rw [hx] at this; exact this
          | ok r2 =>
            obtain ⟨args, s'⟩ := r2
            rw [hx] at this
            obtain ⟨ha, hg', hi'⟩ := this
            simp only []
            have hinv : Inv P h fs (storeC P key s'.cache (result f args)) := by
              intro K' r' hr'
              cases key with
              | none => exact hi' K' r' hr'
              | some K =>
                simp only [storeC] at hr'
                rcases P.put_sub _ _ _ _ _ hr' with ⟨e1, e2⟩ | hold
                · subst e1; subst e2
                  exact valid_put_cond h fs rank kw hinj wf f o K' args hf (hkey K' rfl) ha
                · exact hi' K' r' hold
            cases hov : alookup (outVals f args) o with
            | none => exact hinv
            | some v =>
              refine ⟨fun k w hc => hout args ha o v hov k w hc, ?_, hinv⟩
              intro q v' hq hqm k w hc
              simp only at hqm
              rw [alookup_append] at hqm
              split at hqm
              · next v'' hv'' => injection hqm with e; subst e; exact hout args ha q v'' hv'' k w hc
              · exact hg' q v' hq hqm k w hc

end Fail

end PF.PipeCache
