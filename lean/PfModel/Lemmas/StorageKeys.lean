import PfModel.Lemmas.StorageExt
/-! Lemmas for `Props/C07Keys.lean`: which keys raise which exception, and which elements a (slice) dump key names. -/
namespace PF.St
variable {V : Type}

/-- a slice entry with step 0 (`slice.indices` raises `ValueError`) -/
def KE.step0 : KE → Bool
  | .slice _ _ c => decide (c = some 0)
  | .int _ => false

def hasStep0 (key : List KE) : Bool := key.any KE.step0

theorem sliceRange_step0 (n : Nat) (a b : Option Int) : sliceRange n a b (some 0) = .error .value := by
  simp [sliceRange, sliceIndices]

theorem sliceRange_ok (n : Nat) (a b c : Option Int) (hc : c ≠ some 0) : ∃ r, sliceRange n a b c = .ok r := by
  have hst : c.getD 1 ≠ 0 := by
    cases c with
    | none => simp
    | some x => simp only [Option.getD_some]; intro e; exact hc (by rw [e])
  simp only [sliceRange, sliceIndices, hst, if_false]
  exact ⟨_, rfl⟩

theorem keyRanges_step0 : ∀ (sizes : List Nat) (key : List KE), KeyOK sizes key → hasStep0 key = true →
    keyRanges sizes (normVals sizes key) = .error .value
  | [], [], _, h => by simp [hasStep0] at h
  | [], _ :: _, h, _ => h.elim
  | _ :: _, [], h, _ => h.elim
  | n :: ns, k :: ks, hk, h => by
    simp only [hasStep0, List.any_cons, Bool.or_eq_true] at h
    simp only [normVals, keyRanges]
    cases k with
    | int i =>
      have hks : hasStep0 ks = true := by
        rcases h with h | h
        · simp [KE.step0] at h
        · exact h
      simp only [normVal, axisRange, keyRanges_step0 ns ks hk.2 hks]
    | slice a b c =>
      simp only [normVal, axisRange]
      by_cases hc : c = some 0
      · subst hc; rw [sliceRange_step0]
      · obtain ⟨r, hr⟩ := sliceRange_ok n a b c hc
        have hks : hasStep0 ks = true := by
          rcases h with h | h
          · simp [KE.step0, hc] at h
          · exact h
        simp only [hr, keyRanges_step0 ns ks hk.2 hks]

theorem keyRanges_noStep0 : ∀ (sizes : List Nat) (key : List KE), KeyOK sizes key → hasStep0 key = false →
    ∃ rs, keyRanges sizes (normVals sizes key) = .ok rs
  | [], [], _, _ => ⟨[], rfl⟩
  | [], _ :: _, h, _ => h.elim
  | _ :: _, [], h, _ => h.elim
  | n :: ns, k :: ks, hk, h => by
    simp only [hasStep0, List.any_cons, Bool.or_eq_false_iff] at h
    obtain ⟨rs, hrs⟩ := keyRanges_noStep0 ns ks hk.2 h.2
    simp only [normVals, keyRanges]
    cases k with
    | int i => simp only [normVal, axisRange, hrs]; exact ⟨_, rfl⟩
    | slice a b c =>
      have hc : c ≠ some 0 := by
        intro e; have := h.1; simp [KE.step0, e] at this
      obtain ⟨r, hr⟩ := sliceRange_ok n a b c hc
      simp only [normVal, axisRange, hr, hrs]; exact ⟨_, rfl⟩

theorem step0_isSlice (key : List KE) (h : hasStep0 key = true) : key.any KE.isSlice = true := by
  simp only [hasStep0, List.any_eq_true] at h ⊢
  obtain ⟨k, hk, hs⟩ := h
  refine ⟨k, hk, ?_⟩
  cases k with
  | int i => simp [KE.step0] at hs
  | slice a b c => rfl

/-- one entry of a key names index `e` of its axis: the normalised integer itself, or a member of the slice's range -/
def EntryHits (n : Nat) : KE → Nat → Prop
  | .int k, e => normVal n (.int k) = .idx e
  | .slice a b c, e => ∃ r, sliceRange n a b c = .ok r ∧ e ∈ r

/-- the key names the index tuple `E`, axis by axis -/
def Hits : List Nat → List KE → List Nat → Prop
  | [], [], [] => True
  | n :: ns, k :: ks, e :: es => EntryHits n k e ∧ Hits ns ks es
  | _, _, _ => False

theorem mem_product_hits : ∀ (sizes : List Nat) (key : List KE) (rs : List (List Nat)) (E : List Nat),
    KeyOK sizes key → keyRanges sizes (normVals sizes key) = .ok rs → (E ∈ product rs ↔ Hits sizes key E)
  | [], [], rs, E, _, h => by
    simp only [normVals, keyRanges] at h
    injection h with h; subst h
    cases E <;> simp [product, Hits]
  | [], _ :: _, _, _, h, _ => h.elim
  | _ :: _, [], _, _, h, _ => h.elim
  | n :: ns, k :: ks, rs, E, hk, h => by
    simp only [normVals, keyRanges] at h
    split at h
    · cases h
    · next r hr =>
      split at h
      · cases h
      · next rs' hrs =>
        injection h with h; subst h
        rw [mem_product_cons]
        cases E with
        | nil => simp [Hits]
        | cons e es =>
          have ih := mem_product_hits ns ks rs' es hk.2 hrs
          have he : e ∈ r ↔ EntryHits n k e := by
            cases k with
            | int i =>
              simp only [normVal, axisRange] at hr
              injection hr with hr; subst hr
              simp only [EntryHits, normVal, List.mem_singleton, NK.idx.injEq]
              exact eq_comm
            | slice a b c =>
              simp only [normVal, axisRange] at hr
              simp only [EntryHits, hr]
              constructor
              · intro h; exact ⟨r, rfl, h⟩
              · rintro ⟨r', e', h⟩; injection e' with e'; subst e'; exact h
          simp only [Hits]
          constructor
          · rintro ⟨k', hk', F', hF', e'⟩
            injection e' with e1 e2; subst e1; subst e2
            exact ⟨he.1 hk', ih.1 hF'⟩
          · rintro ⟨h1, h2⟩
            exact ⟨e, he.2 h1, es, ih.2 h2, rfl⟩

end PF.St
