import PfModel.Lemmas.LazySimTop
/-! Helper lemmas for `Props/C18Calls.lean`, part 5: the converse direction — whenever the eager run succeeds, the lazy request
(that finds nothing in a cache) is accepted.  Only acceptance is shown here; the relation between the results is `lrun_sim`. -/
namespace PF.Lazy
open PF PF.Pipe

variable {fs : List Func} {kw : List (String × Val)}

def RevRec (fs : List Func) (kw : List (String × Val)) (b : Nat) (rl : String → LSt → Except Err (LArg × LSt))
    (re : String → St → Except Err (Val × St)) : Prop :=
  ∀ o s t v t', Inv fs kw s → LGood b s → Sim b s t → re o t = .ok (v, t') → ∃ a s', rl o s = .ok (a, s')

theorem largs_rev {b : Nat} {rl : String → LSt → Except Err (LArg × LSt)} {re : String → St → Except Err (Val × St)}
    (hr : SimRec fs kw b rl re) (hv : RevRec fs kw b rl re) (f : Func) :
    ∀ ps s t vals t', Inv fs kw s → LGood b s → Sim b s t → argsWith re fs kw f ps t = .ok (vals, t') →
      ∃ args s', largs rl fs kw f ps s = .ok (args, s') := by
  intro ps
  induction ps with
  | nil => intro s t vals t' _ _ _ _; exact ⟨[], s, rfl⟩
  | cons p ps ih =>
    obtain ⟨p, orig⟩ := p
    intro s t vals t' hi hg hsim h
    simp only [argsWith] at h
    simp only [largs]
    split at h
    · simp at h
    · next v hres =>
      split at h
      · simp at h
      · next rest t2 hrest =>
        have hi' : Inv fs kw { s with used := s.used ++ [p] } := ⟨hi.closed, hi.memo, hi.cache, hi.graph⟩
        have hg' : LGood b { s with used := s.used ++ [p] } := ⟨hg.covered, hg.mfresh, hg.nfresh, hg.base, hg.nohit⟩
        have hsim' : Sim b { s with used := s.used ++ [p] } { t with used := t.used ++ [p] } :=
          ⟨by simp only [hsim.used], hsim.calls, hsim.memoS, hsim.memoN⟩
        obtain ⟨args, s2, h2⟩ := ih _ _ rest t2 hi' hg' hsim' hrest
        exact ⟨(orig, LArg.val v) :: args, s2, by simp only [hres, h2]⟩
    · next hup =>
      split at h
      · simp at h
      · next v1 t1 hrun =>
        split at h
        · simp at h
        · next rest t2 hrest =>
          obtain ⟨a, s1, hl1⟩ := hv p s t v1 t1 hi hg hsim hrun
          obtain ⟨v1', t1', he1, hi1, hg1, hsim1, _⟩ := hr p s t a s1 hi hg hsim hl1
          rw [hrun] at he1; injection he1 with he1; injection he1 with e1 e2; subst e1; subst e2
          have hi' : Inv fs kw { s1 with used := s1.used ++ [p] } := ⟨hi1.closed, hi1.memo, hi1.cache, hi1.graph⟩
          have hg' : LGood b { s1 with used := s1.used ++ [p] } := ⟨hg1.covered, hg1.mfresh, hg1.nfresh, hg1.base, hg1.nohit⟩
          have hsim' : Sim b { s1 with used := s1.used ++ [p] } { t1 with used := t1.used ++ [p] } :=
            ⟨by simp only [hsim1.used], hsim1.calls, hsim1.memoS, hsim1.memoN⟩
          obtain ⟨args, s2, h2⟩ := ih _ _ rest t2 hi' hg' hsim' hrest
          exact ⟨(orig, a) :: args, s2, by simp only [hup, hl1, h2]⟩

theorem lrun_rev {rank : String → Nat} (wf : PipeCache.WF fs rank) (b : Nat) :
    ∀ n, RevRec fs kw b (lrun fs kw n) (run fs kw n) := by
  intro n
  induction n with
  | zero => intro o s t v t' _ _ _ h; simp [run] at h
  | succ n ihn =>
    intro o s t v t' hi hg hsim h
    rw [run_succ] at h
    rw [lrun_succ]
    cases hm : alookup s.memo o with
    | some a => exact ⟨a, s, rfl⟩
    | none =>
      rw [hsim.memoN o hm] at h
      simp only [] at h ⊢
      split at h
      · simp at h
      · next f hf =>
        simp only [hf]
        rw [no_hit hg hm hf]
        simp only []
        split at h
        · simp at h
        · next vals t1 hargsE =>
          obtain ⟨args, s1, hargs⟩ := largs_rev (lrun_sim wf b n) ihn f f.params s t vals t1 hi hg hsim hargsE
          simp only [hargs]
          obtain ⟨_, newm, _, _, hmemo, hkeys, _, _⟩ := updateAll_struct f (.ref s1.nodes.length)
            (cachePut (activeKey fs kw f o s) (.ref s1.nodes.length) (mkNode (.call f args) s1).2)
          have ho : o ∈ f.outputs := (PipeCache.producer_mem fs o f hf).2
          have hsome := alookup_isSome_of_key newm o (by rw [hkeys]; exact ho)
          cases hl : alookup (updateAll f (.ref s1.nodes.length)
              (cachePut (activeKey fs kw f o s) (.ref s1.nodes.length) (mkNode (.call f args) s1).2)).memo o with
          | some a => exact ⟨a, _, rfl⟩
          | none =>
            exfalso
            rw [hmemo, alookup_append] at hl
            cases hh : alookup newm o with
            | none => rw [hh] at hsome; cases hsome
            | some a => rw [hh] at hl; cases hl

/-- whenever the eager run of a request succeeds, the lazy request (that can find nothing in a cache) is accepted -/
theorem lrunTop_name_rev {rank : String → Nat} (wf : PipeCache.WF fs rank) {s : LSt} (hs : Sess fs s) (hfresh : entries s = [])
    {o : String} {out : Outcome} (h : runTop fs kw (.name o) = .ok out) : ∃ a s', lrunTop fs kw (.name o) s = .ok (a, s') := by
  simp only [runTop] at h
  simp only [lrunTop]
  split at h
  · cases h
  · next hko =>
    rw [if_neg hko]
    split at h
    · cases h
    · next v t' hrunE =>
      obtain ⟨hg0, hsim0⟩ := sim_init (kw := kw) s.nodes.length s rfl hfresh
      obtain ⟨a1, s1, hrun⟩ := lrun_rev wf s.nodes.length (fuelFor fs) o _ _ v t' (sess_inv0 kw hs) hg0 hsim0 hrunE
      obtain ⟨v', t'', he, _, hg1, hsim1, _⟩ := lrun_sim wf s.nodes.length (fuelFor fs) o _ _ a1 s1 (sess_inv0 kw hs) hg0 hsim0 hrun
      rw [hrunE] at he; injection he with he; injection he with e1 e2; subst e1; subst e2
      simp only [hrun]
      split at h
      · next hfin =>
        rw [hsim1.used] at hfin
        exact ⟨a1, s1, by rw [if_pos (by rw [hfin, Bool.or_true])]⟩
      · cases h

theorem fin_of_cond {kw : List (String × Val)} {a : LArg} {s : LSt}
    (h : (s.usedNone || ((akeys kw).filter (fun k => !(s.used.contains k))).isEmpty) = true) : fin kw a s = .ok (a, s) := by
  unfold fin; rw [if_pos h]

/-- whenever the eager run of a whole-tuple request succeeds, the lazy request (that can find nothing in a cache) is accepted -/
theorem lrunTop_whole_rev {rank : String → Nat} (wf : PipeCache.WF fs rank) {s : LSt} (hs : Sess fs s) (hfresh : entries s = [])
    {os : List String} {out : Outcome} (h : runTop fs kw (.whole os) = .ok out) : ∃ a s', lrunTop fs kw (.whole os) s = .ok (a, s') := by
  simp only [runTop] at h
  rw [lrunTop_whole_eq]
  split at h
  · cases h
  · next f hfind =>
    simp only [hfind]
    obtain ⟨hg0, hsim0⟩ := sim_init (kw := kw) s.nodes.length s rfl hfresh
    have hi0 := sess_inv0 kw hs
    have hmiss : cacheLookup { s with memo := kw.map fun (k, v) => (k, LArg.val v), used := [], usedNone := false }
        (wholeKey fs kw f os { s with memo := kw.map fun (k, v) => (k, LArg.val v), used := [], usedNone := false }) = none := by
      cases hr : cacheLookup { s with memo := kw.map fun (k, v) => (k, LArg.val v), used := [], usedNone := false }
        (wholeKey fs kw f os { s with memo := kw.map fun (k, v) => (k, LArg.val v), used := [], usedNone := false }) with
      | none => rfl
      | some r =>
        exfalso
        obtain ⟨key, k', _, hmem, _⟩ := cacheLookup_sound hr
        have : (key, r) ∈ entries s := hmem
        rw [hfresh] at this; cases this
    rw [hmiss]
    simp only []
    split at h
    · cases h
    · next vals t1 hargsE =>
      obtain ⟨args, s1, hargs⟩ := largs_rev (lrun_sim wf s.nodes.length (fuelFor fs)) (lrun_rev wf s.nodes.length (fuelFor fs))
        f f.params _ _ vals t1 hi0 hg0 hsim0 hargsE
      obtain ⟨vals', t1', he, _, hg1, hsim1, _⟩ :=
        largs_sim (lrun_sim wf s.nodes.length (fuelFor fs)) f f.params _ _ args s1 hi0 hg0 hsim0 hargs
      rw [hargsE] at he; injection he with he; injection he with e1 e2; subst e1; subst e2
      simp only [hargs]
      split at h
      · next hfin =>
        obtain ⟨hu3, hun3, _, _⟩ := cachePut_fields
          (wholeKey fs kw f os { s with memo := kw.map fun (k, v) => (k, LArg.val v), used := [], usedNone := false })
          (.ref s1.nodes.length) (mkNode (.call f args) s1).2
        refine ⟨_, _, fin_of_cond ?_⟩
        rw [hu3, mkNode_used, ← hsim1.used]
        rw [hfin, Bool.or_true]
      · cases h

end PF.Lazy
