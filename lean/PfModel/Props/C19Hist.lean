import PfModel.Lemmas.XLabelFolder
import PfModel.Props.C19Set
/-!
C19 over HISTORIES of one process: "for every mapped pipeline run, `xarray_dataset_from_results` and `load_xarray_dataset` return
identical datasets …" — also for a run into a folder that has been used, loaded from and rewritten before, next to other folders
that are being written and read.  `PF.XLabel.step` / `exec` (`Model.XLabelFolder`) is the state machine the driver executes
(entry `xhistory`); every theorem is for all histories, all start states, all folder paths.
-/
namespace PF.C19
open PF PF.Map PF.XLabel

/-- **Loading never writes.** A history of loader calls (`load_xarray_dataset`, `load_outputs`, on any folders, with any
    names, `load_intermediate` on or off) leaves every folder as it was: a load cannot change what a later load returns. -/
theorem C19_history_load_readonly (eqv : Val → Val → Bool) :
    ∀ (ops : List Op) (d : Disk), (∀ op ∈ ops, ∀ p, op.writes p = false) → (exec eqv d ops).1 = d
  | [], _, _ => rfl
  | op :: rest, d, h => by
    rw [exec_cons]
    simp only []
    have hs : (step eqv d op).1 = d := by
      cases op with
      | map path _ _ _ _ => have := h _ List.mem_cons_self path; simp [Op.writes] at this
      | load _ _ _ => rfl
      | outputs _ _ => rfl
      | remove path => have := h _ List.mem_cons_self path; simp [Op.writes] at this
    rw [hs]
    exact C19_history_load_readonly eqv rest d (fun o ho => h o (List.mem_cons_of_mem _ ho))

/-- **Folders are independent.** Calls that do not write the folder `p` — loads of anything, runs into and removals of OTHER
    folders — do not change what `load_xarray_dataset` / `load_outputs` return for `p`. -/
theorem C19_history_independent (eqv : Val → Val → Bool) (d : Disk) (ops : List Op) (p : String) (names : List String) (li : Bool)
    (h : ∀ op ∈ ops, op.writes p = false) :
    (step eqv (exec eqv d ops).1 (.load p names li)).2 = (step eqv d (.load p names li)).2 ∧
    (step eqv (exec eqv d ops).1 (.outputs p names)).2 = (step eqv d (.outputs p names)).2 :=
  ⟨step_load_obs eqv _ _ p names li (exec_frame eqv p ops d h), step_outputs_obs eqv _ _ p names (exec_frame eqv p ops d h)⟩

/-- **Every folder is its own state machine** (refinement: the history executed on the whole disk = the specification that
    follows ONE folder).  What the folder `p` holds after any history is obtained from what it held at the start by folding
    `stepSlot` — which looks at nothing but the slot of `p` and the calls that write `p` — over the history: no call on another
    folder, no load, and nothing a previous run left anywhere else (or in the process) takes part. -/
theorem C19_history_projection (eqv : Val → Val → Bool) (p : String) :
    ∀ (ops : List Op) (d : Disk), slotAt (exec eqv d ops).1 p = ops.foldl (stepSlot eqv p) (slotAt d p)
  | [], _ => rfl
  | op :: rest, d => by
    rw [exec_cons]
    simp only [List.foldl_cons]
    rw [C19_history_projection eqv p rest, step_slot]

/-- **The last run decides** (the clause "`load_xarray_dataset` returns the dataset of `xarray_dataset_from_results`", for a
    run at any point of any history).  After ANY calls `pre` from ANY state `d0` (earlier runs into the same folder with other
    pipelines, inputs, defaults; loads of them; removals), a run `map(inputs, run_folder=p)` (`cleanup=True`) that completes with
    result `r`, and then any calls `post` that do not write `p`: `load_xarray_dataset(*names, run_folder=p,
    load_intermediate=li)` builds its dataset from this run's MapSpecs, this run's inputs and defaults and this run's values —
    nothing of the history before the run can be seen. -/
theorem C19_history_last_run (eqv : Val → Val → Bool) (d0 : Disk) (pre post : List Op) (p : String) (fs : List MFunc)
    (inputs : List (String × Val)) (ui : List (String × List Nat)) (r : MapResult) (names : List String) (li : Bool)
    (h : runMap fs inputs ui = .ok r) (hpost : ∀ op ∈ post, op.writes p = false) :
    (step eqv (exec eqv d0 (pre ++ [.map p fs inputs ui true] ++ post)).1 (.load p names li)).2 =
      .dataset (xarrayDataset (pipelineMapspecs fs) (effectiveInputs fs inputs) (alookup r.outputs)
        (if names.isEmpty then akeys r.outputs else names) li) := by
  have hslot : slotAt (exec eqv d0 (pre ++ [.map p fs inputs ui true] ++ post)).1 p = .run (written fs inputs ui r) := by
    rw [exec_append, exec_frame eqv p post _ hpost, exec_append]
    exact step_map_clean eqv _ p fs inputs ui r h
  simp only [step, hslot]
  rw [folderDataset_written fs inputs ui r h]

/-- … so, without names, it is exactly the dataset of `xarray_dataset_from_results(inputs, results, pipeline)` for that run:
    the two constructors return identical datasets at every point of every history. -/
theorem C19_history_same (eqv : Val → Val → Bool) (d0 : Disk) (pre post : List Op) (p : String) (fs : List MFunc)
    (inputs : List (String × Val)) (ui : List (String × List Nat)) (r : MapResult) (li : Bool)
    (h : runMap fs inputs ui = .ok r) (hpost : ∀ op ∈ post, op.writes p = false) :
    (step eqv (exec eqv d0 (pre ++ [.map p fs inputs ui true] ++ post)).1 (.load p [] li)).2 =
      .dataset (fromResults (pipelineMapspecs fs) (effectiveInputs fs inputs) r li) := by
  rw [C19_history_last_run eqv d0 pre post p fs inputs ui r [] li h hpost]
  rfl

/-- **`load_outputs` after the last run** gives that run's values (the data loader of the folder constructor). -/
theorem C19_history_outputs (eqv : Val → Val → Bool) (d0 : Disk) (pre post : List Op) (p : String) (fs : List MFunc)
    (inputs : List (String × Val)) (ui : List (String × List Nat)) (r : MapResult) (names : List String)
    (h : runMap fs inputs ui = .ok r) (hpost : ∀ op ∈ post, op.writes p = false) :
    (step eqv (exec eqv d0 (pre ++ [.map p fs inputs ui true] ++ post)).1 (.outputs p names)).2 =
      .values (names.mapM fun n => match alookup r.outputs n with | some v => pure v | none => throw (Err.key n)) := by
  have hslot : slotAt (exec eqv d0 (pre ++ [.map p fs inputs ui true] ++ post)).1 p = .run (written fs inputs ui r) := by
    rw [exec_append, exec_frame eqv p post _ hpost, exec_append]
    exact step_map_clean eqv _ p fs inputs ui r h
  simp only [step, hslot]
  unfold folderOutputs written
  simp only [runMap_stored_eq_outputs fs inputs ui r h]
  rfl

/-- **A refused `cleanup=False` run writes nothing**: the folder, and so every later load, is as before. -/
theorem C19_history_refused_keeps (eqv : Val → Val → Bool) (d : Disk) (p : String) (f : RunFolder) (fs : List MFunc)
    (inputs : List (String × Val)) (ui : List (String × List Nat)) (hs : slotAt d p = .run f)
    (hr : resumable eqv f fs inputs ui = false) : step eqv d (.map p fs inputs ui false) = (d, .refused) := by
  simp only [step, hs, hr]
  simp

/-- **Running the same call again with `cleanup=False`** (accepted by `_compare_to_previous_run_info`) reloads every element
    and leaves the records of the run as they were: later loads return the same dataset. -/
theorem C19_history_rerun_same (eqv : Val → Val → Bool) (d : Disk) (p : String) (fs : List MFunc)
    (inputs : List (String × Val)) (ui : List (String × List Nat)) (r : MapResult)
    (hs : slotAt d p = .run (written fs inputs ui r)) (hr : resumable eqv (written fs inputs ui r) fs inputs ui = true) :
    (step eqv d (.map p fs inputs ui false)).2 = .resumed r.stored ∧
    slotAt (step eqv d (.map p fs inputs ui false)).1 p = .run (written fs inputs ui r) := by
  simp only [step, hs, hr]
  simp [slotAt_setSlot_same, written]

/-- **A removed folder is gone**: after `rmtree(p)` and any calls that do not write `p`, both loaders raise
    `FileNotFoundError` — no dataset of an earlier run is returned. -/
theorem C19_history_removed (eqv : Val → Val → Bool) (d0 : Disk) (pre post : List Op) (p : String) (names : List String)
    (li : Bool) (hpost : ∀ op ∈ post, op.writes p = false) :
    (step eqv (exec eqv d0 (pre ++ [.remove p] ++ post)).1 (.load p names li)).2 = .notFound ∧
    (step eqv (exec eqv d0 (pre ++ [.remove p] ++ post)).1 (.outputs p names)).2 = .notFound := by
  have hslot : slotAt (exec eqv d0 (pre ++ [.remove p] ++ post)).1 p = .absent := by
    rw [exec_append, exec_frame eqv p post _ hpost, exec_append]
    exact slotAt_setSlot_same _ _ _
  simp only [step, hslot]
  exact ⟨trivial, trivial⟩

/-- **Every dataset ever loaded is labelled by ONE completed run.** In any history from an empty disk, whatever
    `load_xarray_dataset` returns for any folder holds, for some completed run `r` of some pipeline `fs` (resumed runs included):
    every variable is named after a requested output and holds `r`'s value of it; the variable of a MapSpec output has
    `mapspec_axes` of THAT pipeline's MapSpecs as dimensions, any other one is dimensionless / a plain array (`singleDims`).
    (MapSpecs and values can never come from two different runs.) -/
theorem C19_history_vars_sound (eqv : Val → Val → Bool) (ops : List Op) (p : String) (names : List String) (li : Bool) (ds : Dataset)
    (h : (step eqv (exec eqv [] ops).1 (.load p names li)).2 = .dataset (.ok ds)) :
    ∃ fs inputs ui r, runMap fs inputs ui = .ok r ∧ ∀ var ∈ ds.vars,
      alookup r.outputs var.name = some var.data ∧
      ((∃ dims, var.dims = some dims ∧ mapspecAxes (pipelineMapspecs fs) var.name = some dims) ∨
        var.dims = singleDims var.name var.data) := by
  have hg := goodDisk_exec eqv ops [] goodDisk_nil p
  simp only [step] at h
  split at h
  · cases h
  · cases h
  · next f hf =>
    rw [hf] at hg
    obtain ⟨fs, inputs, ui, r, hr, hm, hst⟩ := hg
    refine ⟨fs, inputs, ui, r, hr, ?_⟩
    intro var hvar
    have hd : folderDataset f names li = .ok ds := by
      injection h
    unfold folderDataset at hd
    obtain ⟨_, hl, hcases⟩ := C19_vars_sound _ _ _ _ li ds hd var hvar
    rw [hst] at hl
    refine ⟨hl, ?_⟩
    rcases hcases with ⟨_, dims, h1, h2⟩ | ⟨_, h2⟩
    · exact Or.inl ⟨dims, h1, hm ▸ h2⟩
    · exact Or.inr h2

/-! ### non-vacuity: `x[i] -> y[i]` run twice into one folder with other values, next to a second folder -/

def fE : MFunc := { name := "f", params := [("x", "x")], outputs := ["y"],
                    mapspec := some ⟨[⟨"x", [some "i"]⟩], [⟨"y", [some "i"]⟩]⟩, ret := none, internal := none, defaults := [], bound := [] }
def in1 : List (String × Val) := [("x", .arr [2] [.int 1, .int 2])]
def in2 : List (String × Val) := [("x", .arr [2] [.int 7, .int 5])]
def eqE : Val → Val → Bool := fun a b => reprStr a == reprStr b

/-- the hypotheses of `C19_history_last_run` / `_same` / `_outputs` hold: both runs complete … -/
example : (runMap [fE] in1 []).toOption.isSome = true ∧ (runMap [fE] in2 []).toOption.isSome = true := by decide
/-- … and the coordinate `x` of the second load carries the SECOND run's values (7, 5), not the first run's -/
example : (match (exec eqE [] [.map "F" [fE] in1 [] true, .load "F" [] true, .map "G" [fE] in1 [] true,
                               .map "F" [fE] in2 [] true, .load "G" [] true, .load "F" [] true]).2.getLast? with
           | some (.dataset (.ok ds)) => ds.coords.map fun c => (c.name, c.dims, match c.val with | .plain (.arr _ xs) => xs.length | _ => 0)
           | _ => []) = [("x", ["i"], 2)] := by decide
example : (match (step eqE (exec eqE [] [.map "F" [fE] in1 [] true, .load "F" [] true, .map "F" [fE] in2 [] true]).1 (.load "F" [] false)).2 with
           | .dataset (.ok ds) => ds.coords.map fun c => match c.val with | .plain (.arr _ [.int a, .int b]) => [a, b] | _ => []
           | _ => []) = [[7, 5]] := by decide
/-- `C19_history_refused_keeps`: other inputs are refused by `cleanup=False` -/
example : (match runMap [fE] in1 [] with
           | .ok r => resumable (fun a b => match a, b with | .arr _ [.int a, .int b], .arr _ [.int c, .int d] => a == c && b == d | _, _ => false)
                        (written [fE] in1 [] r) [fE] in2 [] | .error _ => true) = false := by decide
/-- `C19_history_rerun_same`: the same call is accepted -/
example : (match runMap [fE] in1 [] with
           | .ok r => resumable (fun a b => match a, b with | .arr _ [.int a, .int b], .arr _ [.int c, .int d] => a == c && b == d | _, _ => false)
                        (written [fE] in1 [] r) [fE] in1 [] | .error _ => false) = true := by decide
/-- `C19_history_removed`, `C19_history_vars_sound`: a load after a removal finds nothing; a load after a run returns a dataset -/
example : (match (exec eqE [] [.map "F" [fE] in1 [] true, .remove "F", .load "F" [] true]).2.getLast? with
           | some .notFound => true | _ => false) = true := by decide
example : (match (step eqE (exec eqE [] [.map "F" [fE] in1 [] true]).1 (.load "F" [] true)).2 with
           | .dataset (.ok ds) => ds.vars.map (·.name) | _ => []) = ["y"] := by decide

end PF.C19
