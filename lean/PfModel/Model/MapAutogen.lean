/-
  Executable model of the MapSpec autogeneration that runs when a `Pipeline` is constructed:
  `pipefunc/_pipeline/_mapspec.py:45-114` (`find_non_root_axes`, `replace_none_in_axes`, `create_missing_mapspecs`) as called by
  `Pipeline._autogen_mapspec_axes` (`pipefunc/_pipeline/_base.py:1238-1246`) from `Pipeline._validate_mapspec`
  (`_base.py:1156-1170`), which `Pipeline.add` runs after EVERY added function (`_base.py:265`).

  The functions of a pipeline are a `List MFunc` in the order they were added (`Pipeline.functions`); a function with
  `mapspec := none` is a candidate.  The dicts of the Python code are insertion-ordered association lists here (the order decides
  which `unnamed_N` an axis receives).
-/
import PfModel.Model.MapRun

namespace PF.MapAutogen
open PF PF.Map

/-- the value type of `non_root_inputs`: one entry per axis, `none` while no consumer has named it (`_mapspec.py:54`) -/
abbrev Axes := List (Option String)

/-- `non_root_inputs: dict[str, list[str | None]]` (`_mapspec.py:49`), insertion ordered; keys are unique by construction -/
abbrev Tbl := List (String × Axes)

/-- `d.get(k)` / `k in d` on the association list (first match; `_mapspec.py:53,76,103`) -/
def get : Tbl → String → Option Axes
  | [], _ => none
  | (k', v) :: r, k => if k' = k then some v else get r k

/-- in-place change of the list stored under `k` (`non_root_inputs[k][j] = …`, `_mapspec.py:57,84,87`); keys are unique, so
    changing every entry with that key is the dict update -/
def modify (t : Tbl) (k : String) (f : Axes → Axes) : Tbl :=
  t.map fun kv => if kv.1 = k then (kv.1, f kv.2) else kv

/-- `Pipeline.mapspecs(ordered=False)` (`_base.py:1127-1130`): the MapSpecs in the order of `Pipeline.functions` -/
def mapspecs (fs : List MFunc) : List MSpec := fs.filterMap (·.mapspec)

/-- the ArraySpecs through which functions consume arrays: `for mapspec in mapspecs: for spec in mapspec.inputs`
    (`_mapspec.py:50-51`) -/
def consumerSpecs (fs : List MFunc) : List ASpec := (mapspecs fs).flatMap (·.inputs)

/-- `topological_generations.root_args` (`_base.py:1211-1217`): the `str` nodes of the graph, i.e. the parameters that are
    neither bound in the function using them nor the output of a function (only membership is used, `_mapspec.py:52`) -/
def rootArgs (fs : List MFunc) : List String :=
  fs.flatMap fun f => (f.params.map (·.1)).filter fun p =>
    !(f.bound.map (·.1)).contains p && !(allOutputs fs).contains p

/-- `for i, axis in enumerate(spec.axes): if axis is not None: non_root_inputs[name][i] = axis` (`_mapspec.py:55-57`).
    A write past the end of the stored list would be an IndexError in Python; it cannot happen after
    `validate_consistent_axes` (`_base.py:1169`, `consistent` below) has passed, the model drops such writes. -/
def merge : Axes → Axes → Axes
  | o :: os, n :: ns => (match n with | some x => some x | none => o) :: merge os ns
  | os, _ => os

/-- the body of the loop of `find_non_root_axes` for one consumer ArraySpec (`_mapspec.py:53-57`): a new entry of `rank * [None]`
    goes to the END of the dict, then the named axes are written -/
def noteSpec (t : Tbl) (s : ASpec) : Tbl :=
  match get t s.name with
  | none => t ++ [(s.name, merge (List.replicate s.axes.length none) s.axes)]
  | some _ => modify t s.name fun old => merge old s.axes

/-- `find_non_root_axes` (`_mapspec.py:45-58`) over the consumer ArraySpecs in order -/
def findNonRoot (specs : List ASpec) (roots : List String) : Tbl :=
  (specs.filter fun s => !roots.contains s.name).foldl noteSpec []

/-- `multi_output_mapping` (`_base.py:1243-1244`) read at one name: the whole output tuple of the function producing `n` when
    it has more than one output (the function may have a MapSpec or not), else `()` (`_mapspec.py:76` `.get(name, ())`) -/
def sibOf (fs : List MFunc) (n : String) : List String :=
  match fs.find? fun f => f.outputs.contains n && decide (f.outputs.length > 1) with
  | some f => f.outputs
  | none => []

/-- the mutable state of `replace_none_in_axes`: the dict, `all_axes_names` (`_mapspec.py:66-68,83`) and `i` (`_mapspec.py:70,82`) -/
structure St where
  tbl : Tbl
  used : List String
  ctr : Nat

/-- `axis_template.format(i)` (`_mapspec.py:71,81`) -/
def unnamed (i : Nat) : String := "unnamed_" ++ toString i

/-- `while (new_axis := axis_template.format(i)) in all_axes_names: i += 1` (`_mapspec.py:81-82`): the final `i`.  The loop ends
    within `len(all_axes_names) + 1` rounds (that many distinct candidates cannot all be taken): that is the fuel. -/
def freshFrom (used : List String) (i : Nat) : Nat → Nat
  | 0 => i
  | fuel + 1 => if used.contains (unnamed i) then freshFrom used (i + 1) fuel else i

/-- `non_root_inputs[o][j]` (`_mapspec.py:77,86`): KeyError / IndexError as in Python -/
def axisAt (t : Tbl) (o : String) (j : Nat) : Except Err (Option String) :=
  match get t o with
  | none => .error (.key o)
  | some ax => match ax[j]? with
    | none => .error (.index o)
    | some a => .ok a

/-- `if non_root_inputs[o][j] is None: non_root_inputs[o][j] = new_axis` (`_mapspec.py:84,86-87`) on one stored list -/
def fillAt (j : Nat) (nm : String) (ax : Axes) : Axes :=
  if ax[j]? = some none then ax.set j (some nm) else ax

/-- the body of the two loops of `replace_none_in_axes` at `(name, j)` (`_mapspec.py:73-87`).
    NOTE `all_axes_names` holds ARRAY names (`axis.name for axis in mapspec.inputs + mapspec.outputs`, `_mapspec.py:66-68`), not
    index names: a fresh `unnamed_N` can coincide with an index the user wrote. -/
def step (sib : String → List String) (st : St) (p : String × Nat) : Except Err St :=
  match axisAt st.tbl p.1 p.2 with
  | .error e => .error e
  | .ok (some _) => .ok st
  | .ok none =>
    let sibs := (sib p.1).filter fun o => (get st.tbl o).isSome
    match sibs.mapM fun o => axisAt st.tbl o p.2 with
    | .error e => .error e
    | .ok vals =>
      let pick : String × List String × Nat := match vals.filterMap id with
        | x :: _ => (x, st.used, st.ctr)
        | [] =>
          let i := freshFrom st.used st.ctr (st.used.length + 1)
          (unnamed i, unnamed i :: st.used, i)
      let t1 := modify st.tbl p.1 (fillAt p.2 pick.1)
      let t2 := sibs.foldl (fun t o => modify t o (fillAt p.2 pick.1)) t1
      .ok { tbl := t2, used := pick.2.1, ctr := pick.2.2 }

/-- the `(name, j)` pairs the two `for` loops of `replace_none_in_axes` visit, in order (`_mapspec.py:72-73`); neither the keys
    nor the lengths of the lists change while the loops run -/
def positions (t : Tbl) : List (String × Nat) :=
  t.flatMap fun kv => (List.range kv.2.length).map fun j => (kv.1, j)

/-- `all_axes_names` at the start (`_mapspec.py:66-68`): the array names of all MapSpecs -/
def arrayNames (fs : List MFunc) : List String :=
  (mapspecs fs).flatMap fun ms => (ms.inputs ++ ms.outputs).map (·.name)

/-- `replace_none_in_axes` (`_mapspec.py:61-88`) -/
def replaceNone (fs : List MFunc) (t : Tbl) : Except Err St :=
  (positions t).foldlM (step (sibOf fs)) { tbl := t, used := arrayNames fs, ctr := 0 }

/-- `create_missing_mapspecs` for one function (`_mapspec.py:96-112`): a function without MapSpec one of whose outputs is a key of
    `non_root_inputs` gets `... -> o1[axes], o2[axes]` with the axes stored for that output.  Python walks a `set` of names, so
    WHICH output of a tuple decides is unspecified when the stored lists differ (see `ambiguous`); the model takes the first output
    in `output_name` order that has an entry. -/
def genFor (t : Tbl) (f : MFunc) : MFunc :=
  match f.mapspec with
  | some _ => f
  | none => match f.outputs.findSome? (get t) with
    | none => f
    | some ax => { f with mapspec := some { inputs := [], outputs := f.outputs.map fun o => { name := o, axes := ax } } }

/-- the outputs of a function without MapSpec have different lists in `non_root_inputs`: the iteration order of the Python `set`
    `missing` (`_mapspec.py:103-105`) decides which one is used -/
def ambiguous (t : Tbl) (f : MFunc) : Bool :=
  f.mapspec.isNone && match f.outputs.findSome? (get t) with
    | none => false
    | some ax => f.outputs.any fun o => match get t o with
      | some e => e != ax
      | none => false

/-- `non_root_inputs` as `create_missing_mapspecs` receives it in the run over `fs` (`_base.py:1242-1246`) -/
def finalTbl (fs : List MFunc) : Except Err Tbl :=
  match replaceNone fs (findNonRoot (consumerSpecs fs) (rootArgs fs)) with
  | .error e => .error e
  | .ok st => .ok st.tbl

/-- two ArraySpecs of one array agree: same rank, same index wherever both name the axis (`map/_mapspec.py:395-412`) -/
def agree (a b : Axes) : Bool :=
  a.length == b.length && (a.zip b).all fun xy => xy.1.isNone || xy.2.isNone || xy.1 == xy.2

/-- `validate_consistent_axes(self.mapspecs(ordered=False))` (`_base.py:1169`, `map/_mapspec.py:384-412`) -/
def consistent (fs : List MFunc) : Bool :=
  let specs := (mapspecs fs).flatMap fun ms => ms.inputs ++ ms.outputs
  specs.all fun a => specs.all fun b => a.name != b.name || agree a.axes b.axes

/-- `at_least_tuple(f.output_name) != f.mapspec.output_names` (`_base.py:1162-1168`) -/
def outputsMatch (fs : List MFunc) : Bool :=
  fs.all fun f => match f.mapspec with
    | none => true
    | some ms => ms.outputs.map (·.name) == f.outputs

/-- one run of `Pipeline._validate_mapspec` (`_base.py:1156-1170`) on functions none of which carries a generated MapSpec (those
    are dropped first, `_base.py:1158-1161`): the two checks, then `_autogen_mapspec_axes` (`_base.py:1238-1246`) -/
def autogen (fs : List MFunc) : Except Err (List MFunc) :=
  if !outputsMatch fs then .error (.value "output_name does not match the MapSpec") else
  if !consistent fs then .error (.value "MapSpec axes are inconsistent") else
  match finalTbl fs with
  | .error e => .error e
  | .ok t => .ok (fs.map (genFor t))

/-- `Pipeline(functions)` (`_base.py:180-185`, `add` → `_validate`, `_base.py:265`): the run happens after every added function on the
    functions added so far (an error of a prefix surfaces); generated MapSpecs are dropped before each run, so the answer is the
    run over the whole list -/
def construct (fs : List MFunc) : Except Err (List MFunc) :=
  match (List.range fs.length).mapM fun k => autogen (fs.take (k + 1)) with
  | .error e => .error e
  | .ok _ => autogen fs

/-- the MapSpecs after construction (`none`: no MapSpec; `none` overall: refused) — what the driver prints and the witnesses compare -/
def specsAfter (fs : List MFunc) : Option (List (Option MSpec)) :=
  match construct fs with
  | .error _ => none
  | .ok fs' => some (fs'.map (·.mapspec))

/-- a function description with only the fields the autogeneration reads -/
def mk (name : String) (params outputs : List String) (ms : Option MSpec) : MFunc :=
  { name := name, params := params.map fun p => (p, p), outputs := outputs, mapspec := ms, ret := none, internal := none, defaults := [], bound := [] }

end PF.MapAutogen
