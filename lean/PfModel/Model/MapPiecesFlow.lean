/-
The static side of the data flow of a run in pieces (`Props/C06Flow.lean`): decidable relations between `fixed_indices`, the
MapSpecs of a pipeline and the shapes/masks `map_shapes` computed, under which every part of a run in pieces reads — from the
partially filled storage — exactly the arguments the full run reads (`C06_pieces_flow`).  `flowWF` is what
`validate_consistent_axes` (same axis names at the same positions of an array in every MapSpec, `_mapspec.py`),
`_validate_fixed_indices` (no fixed axis is reduced: taken whole or sliced with `:`) and `MapSpec.shape` (an output axis has the
size of the input axes with the same name) guarantee together; the driver evaluates it on every generated case
(`flow.wf`), the harness counts the cases where it fails although the request was accepted (none).
Core Lean only.
-/
import PfModel.Model.MapPieces
namespace PF.Pieces
open PF PF.Map

/-- is the axis named in `fixed_indices`? -/
def isFixed (fx : List (String × Sel)) (x : String) : Bool := (alookup fx x).isSome


/-- is the element with full index `F` of an array with mask `m`, axis names `ns` and shape `sh` inside the selection
    `_mask_fixed_axes` makes on the array's producer? -/
def selFullB (fx : List (String × Sel)) : List Bool → List String → List Nat → List Nat → Bool
  | true :: m, x :: ns, d :: sh, e :: F =>
    (match selIndices d (fixedLookup fx x) with
     | .ok l => l.contains e
     | .error _ => false) && selFullB fx m ns sh F
  | false :: m, _ :: ns, _ :: sh, _ :: F => selFullB fx m ns sh F
  | _, _, _, _ => true


/-- one component of `MapSpec.input_keys` -/
def keyAt (ext : List String) (E : List Nat) : Option String → Option Nat
  | none => none
  | some n => match ext.findIdx? (· = n) with
    | some q => some (E.getD q 0)
    | none => some 0


/-- **the static relation between a consumer and an array it reads through its MapSpec**, position by position
    (`m`, `ns`, `sh`: mask, axis names and shape of the array as its producer stores it; `ax`: the consumer's axes for it;
    `ext`, `es`: the consumer's external index names and their sizes): a `:` position of an external axis must not be a fixed
    axis; a named position must be one of the consumer's external indices with the same size, and for an external axis of
    the producer it must carry the producer's name -/
def posOK (fx : List (String × Sel)) (ext : List String) (es : List Nat) :
    List Bool → List String → List (Option String) → List Nat → Bool
  | b :: m, x :: ns, none :: ax, _ :: sh => (!b || !isFixed fx x) && posOK fx ext es m ns ax sh
  | b :: m, x :: ns, some n :: ax, d :: sh =>
    (match ext.findIdx? (· = n) with
     | some r => ext[r]? == some n && es[r]? == some d
     | none => false) && (!b || n == x) && posOK fx ext es m ns ax sh
  | [], [], [], [] => true
  | _, _, _, _ => false


/-- the axis names of a stored array: the output indices of its producer's MapSpec -/
def axesOf (fs : List MFunc) (n : String) : List String :=
  match producer fs n with
  | some f => match f.mapspec with
    | some ms => ms.outputIndices
    | none => []
  | none => []

def shapeOfName (shapes : List (String × List Nat)) (n : String) : List Nat := (alookup shapes n).getD []
def maskOfName (masks : List (String × List Bool)) (n : String) : List Bool := (alookup masks n).getD []

/-- a consumer that takes the array `p` whole (no MapSpec, or `p` not among the MapSpec inputs) reduces all its axes: none
    of its external axes may be fixed -/
def wholeOK (fs : List MFunc) (masks : List (String × List Bool)) (fx : List (String × Sel)) (p : String) : Bool :=
  (extOf (maskOfName masks p) (axesOf fs p)).all fun x => !isFixed fx x

/-- the relation between consumer `g` and the stored array `p` it reads -/
def paramOK (fs : List MFunc) (shapes : List (String × List Nat)) (masks : List (String × List Bool)) (fx : List (String × Sel))
    (g : MFunc) (p : String) : Bool :=
  match g.mapspec with
  | none => wholeOK fs masks fx p
  | some ms =>
    if ms.inputs.isEmpty then wholeOK fs masks fx p else
    match ms.inputSpec p with
    | none => wholeOK fs masks fx p
    | some a =>
      match g.outputs.head? with
      | none => false
      | some o => posOK fx ms.externalIndices (extOf (maskOfName masks o) (shapeOfName shapes o)) (maskOfName masks p) (axesOf fs p)
                    a.axes (shapeOfName shapes p)

/-- per function: its outputs are produced by a function with its MapSpec and share shape and mask; the external indices are
    the output indices at the external positions of the mask; every parameter read from the store satisfies `paramOK` -/
def funcOK (fs : List MFunc) (shapes : List (String × List Nat)) (masks : List (String × List Bool)) (inputs : List (String × Val))
    (fx : List (String × Sel)) (g : MFunc) : Bool :=
  (g.outputs.all fun o => ((producer fs o).map (·.mapspec) == some g.mapspec) &&
      (alookup shapes o == alookup shapes (g.outputs.headD "")) && (alookup masks o == alookup masks (g.outputs.headD ""))) &&
  (match g.mapspec with
   | some ms => ms.inputs.isEmpty ||
      (match g.outputs.head? with
       | none => true
       | some o => (ms.externalIndices == extOf (maskOfName masks o) ms.outputIndices) &&
                   (ms.outputIndices.length == (maskOfName masks o).length))
   | none => true) &&
  (g.params.all fun pq => (alookup g.bound pq.1).isSome || (alookup inputs pq.1).isSome || (producer fs pq.1).isNone ||
      paramOK fs shapes masks fx g pq.1)

/-- **the static well-formedness under which the data flow of a part is that of the full run** -/
def flowWF (fs : List MFunc) (shapes : List (String × List Nat)) (masks : List (String × List Bool)) (inputs : List (String × Val))
    (fx : List (String × Sel)) : Bool := fs.all (funcOK fs shapes masks inputs fx)

end PF.Pieces
