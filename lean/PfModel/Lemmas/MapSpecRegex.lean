/-
Lemmas for `C08Regex`: the backtracking matcher `Re.m` on the pattern `arrayRe` computes what the hand-written scanner
(`matchName`, `matchIdx`, `findAll` of `Model/MapSpecParse.lean`) computes, on every string.
-/
import PfModel.Model.MapSpecRegex
import PfModel.Lemmas.MapSpecParse
namespace PF.MS

/-! ### repetition of a one-character test without fuel -/

/-- greedy `p{mn,}` followed by `k`, `n` iterations done: take as many as possible, give back one at a time -/
def greedyChr {α : Type} (p : Char → Bool) (mn : Nat) (k : List Char → Option α) : Nat → List Char → Option α
  | n, [] => if mn ≤ n then k [] else none
  | n, x :: r =>
    if p x then
      match greedyChr p mn k (n + 1) r with
      | some v => some v
      | none => if mn ≤ n then k (x :: r) else none
    else if mn ≤ n then k (x :: r) else none

/-- lazy `p{mn,}?` followed by `k`: try the continuation first, then one more character -/
def lazyChr {α : Type} (p : Char → Bool) (mn : Nat) (k : List Char → Option α) : Nat → List Char → Option α
  | n, [] => if mn ≤ n then k [] else none
  | n, x :: r =>
    match (if mn ≤ n then k (x :: r) else none) with
    | some v => some v
    | none => if p x then lazyChr p mn k (n + 1) r else none

theorem m_chr_cons {α : Type} (p : CC) (x : Char) (r : List Char) (c : Caps) (k : K α) :
    (Re.chr p).m (x :: r) c k = if p.test x then k r c else none := rfl
theorem m_chr_nil {α : Type} (p : CC) (c : Caps) (k : K α) : (Re.chr p).m [] c k = none := rfl
theorem m_seq {α : Type} (a b : Re) (s : List Char) (c : Caps) (k : K α) :
    (Re.seq a b).m s c k = a.m s c (fun s' c' => b.m s' c' k) := rfl
theorem m_rep {α : Type} (g : Bool) (mn : Nat) (mx : Option Nat) (a : Re) (s : List Char) (c : Caps) (k : K α) :
    (Re.rep g mn mx a).m s c k = repLoop a.m g mn mx (s.length + 1) 0 s c k := rfl
theorem m_grp {α : Type} (i : Nat) (a : Re) (s : List Char) (c : Caps) (k : K α) :
    (Re.grp i a).m s c k = a.m s c (fun s' c' => k s' ((i, s.take (s.length - s'.length)) :: c')) := rfl

theorem rep_greedy_chr {α : Type} (p : CC) (mn : Nat) (k : K α) (c : Caps) :
    ∀ (s : List Char) (fuel n : Nat), s.length < fuel →
      repLoop (Re.chr p).m true mn none fuel n s c k = greedyChr p.test mn (fun s' => k s' c) n s := by
  intro s
  induction s with
  | nil =>
    intro fuel n h
    cases fuel with
    | zero => exact absurd h (by simp)
    | succ f => simp [repLoop, m_chr_nil, greedyChr]
  | cons x r ih =>
    intro fuel n h
    cases fuel with
    | zero => exact absurd h (by simp)
    | succ f =>
      have hr : r.length < f := by simpa using h
      simp only [repLoop, m_chr_cons, greedyChr, List.length_cons, Nat.lt_succ_self, if_true]
      cases hp : p.test x with
      | false => simp <;> rfl
      | true => simp [ih f (n + 1) hr] <;> rfl

theorem rep_lazy_chr {α : Type} (p : CC) (mn : Nat) (k : K α) (c : Caps) :
    ∀ (s : List Char) (fuel n : Nat), s.length < fuel →
      repLoop (Re.chr p).m false mn none fuel n s c k = lazyChr p.test mn (fun s' => k s' c) n s := by
  intro s
  induction s with
  | nil =>
    intro fuel n h
    cases fuel with
    | zero => exact absurd h (by simp)
    | succ f =>
      simp only [repLoop, m_chr_nil, lazyChr]
      cases (if mn ≤ n then k [] c else none) <;> simp
  | cons x r ih =>
    intro fuel n h
    cases fuel with
    | zero => exact absurd h (by simp)
    | succ f =>
      have hr : r.length < f := by simpa using h
      simp only [repLoop, m_chr_cons, lazyChr, List.length_cons, Nat.lt_succ_self, if_true]
      cases hp : p.test x with
      | false => simp <;> rfl
      | true => simp [ih f (n + 1) hr] <;> rfl

/-! ### `span` -/

def AllWord (w : List Char) : Prop := ∀ c ∈ w, isWord c = true
def NoWordHead (r : List Char) : Prop := ∀ c r', r = c :: r' → isWord c = false

theorem span_spec (p : Char → Bool) : ∀ s : List Char,
    s = (span p s).1 ++ (span p s).2 ∧ (∀ c ∈ (span p s).1, p c = true) ∧
    (∀ c r', (span p s).2 = c :: r' → p c = false)
  | [] => by simp [span]
  | x :: r => by
    have ih := span_spec p r
    cases hp : p x with
    | false =>
      simp only [span, hp]
      refine ⟨by simp, by simp, ?_⟩
      intro c r' e
      simp at e
      rw [← e.1]; exact hp
    | true =>
      simp only [span, hp, if_true]
      refine ⟨?_, ?_, ih.2.2⟩
      · simpa using ih.1
      · intro c hc
        simp at hc
        rcases hc with rfl | hc
        · exact hp
        · exact ih.2.1 c hc

/-! ### a greedy word run before a continuation that cannot tell how the run was split -/

theorem greedy_collapse {α : Type} (mn : Nat) (k2 : List Char → Option α) (r1 : List Char) (hr1 : NoWordHead r1)
    (hk : ∀ w', w' ≠ [] → AllWord w' → k2 (w' ++ r1) = none ∨ k2 (w' ++ r1) = k2 r1) :
    ∀ (w : List Char) (n : Nat), AllWord w → mn ≤ n + w.length → greedyChr isWord mn k2 n (w ++ r1) = k2 r1 := by
  intro w
  induction w with
  | nil =>
    intro n _ h
    have h' : mn ≤ n := by simpa using h
    cases r1 with
    | nil => simp [greedyChr, h']
    | cons x r => simp [greedyChr, hr1 x r rfl, h']
  | cons x w ih =>
    intro n hw h
    have hx : isWord x = true := hw x List.mem_cons_self
    have hw' : AllWord w := fun c hc => hw c (List.mem_cons_of_mem _ hc)
    have := ih (n + 1) hw' (by simp at h; omega)
    simp only [List.cons_append, greedyChr, hx, if_true, this]
    cases hv : k2 r1 with
    | some v => rfl
    | none =>
      simp only []
      split
      · rcases hk (x :: w) (by simp) hw with h0 | h0
        · simpa using h0
        · rw [hv] at h0; simpa using h0
      · rfl

/-! ### the name part `\w+(?:\.\w+)?\w*` before a continuation that needs `[` -/

/-- `\w*` -/
def starW : Re := .rep true 0 none (.chr .word)
/-- `(?:\.\w+)?` -/
def optDot : Re := .rep true 0 (some 1) (.seq (.chr (.lit '.')) wordPlus)
/-- `\w+(?:\.\w+)?\w*` -/
def nameRe : Re := .seq wordPlus (.seq optDot starW)
/-- `\[(.+?)\]` -/
def idxRe : Re := .seq (.chr (.lit '[')) (.seq (.grp 2 (.rep false 1 none (.chr .any))) (.chr (.lit ']')))

theorem arrayRe_eq : arrayRe = .seq (.grp 1 nameRe) idxRe := rfl

/-- the continuation fails unless the text starts with `[` -/
def HeadLBr {α : Type} (k : K α) : Prop := ∀ s c, (∀ r, s ≠ '[' :: r) → k s c = none

theorem word_head_ne_lbr (w' r1 : List Char) (hne : w' ≠ []) (hw : AllWord w') : ∀ r, w' ++ r1 ≠ '[' :: r := by
  intro r e
  cases w' with
  | nil => exact hne rfl
  | cons a w'' =>
    have ha := hw a List.mem_cons_self
    simp at e
    rw [e.1] at ha
    exact absurd ha (by decide)

theorem wordPlus_m {α : Type} (s : List Char) (c : Caps) (k : K α) :
    wordPlus.m s c k = greedyChr isWord 1 (fun s' => k s' c) 0 s := by
  unfold wordPlus
  rw [m_rep, rep_greedy_chr _ _ _ _ _ _ _ (Nat.lt_succ_self _)]
  rfl

theorem starW_m {α : Type} (k : K α) (hk : HeadLBr k) (w r1 : List Char) (hw : AllWord w) (hr : NoWordHead r1) (c : Caps) :
    starW.m (w ++ r1) c k = k r1 c := by
  unfold starW
  rw [m_rep, rep_greedy_chr _ _ _ _ _ _ _ (Nat.lt_succ_self _)]
  show greedyChr isWord 0 (fun s' => k s' c) 0 (w ++ r1) = _
  apply greedy_collapse 0 (fun s' => k s' c) r1 hr _ w 0 hw (Nat.zero_le _)
  intro w' hne hw'
  exact Or.inl (hk _ c (word_head_ne_lbr w' r1 hne hw'))

theorem optDot_nil {α : Type} (c : Caps) (kS : K α) : optDot.m [] c kS = kS [] c := by
  unfold optDot
  rw [m_rep]
  simp [repLoop, m_seq, m_chr_nil]

theorem optDot_cons {α : Type} (x : Char) (r : List Char) (c : Caps) (kS : K α) :
    optDot.m (x :: r) c kS =
      match (if x == '.' then wordPlus.m r c (fun s' c' => if s'.length < r.length + 1 then kS s' c' else none) else none) with
      | some v => some v
      | none => kS (x :: r) c := by
  unfold optDot
  rw [m_rep]
  simp only [repLoop, m_seq, m_chr_cons, CC.test, List.length_cons, Nat.lt_irrefl, decide_false, decide_true,
    Nat.zero_lt_one, Nat.zero_le, if_true, if_false, Nat.lt_succ_self]
  simp
  rfl

theorem noWordHead_cons (x : Char) (r : List Char) (hx : isWord x = false) : NoWordHead (x :: r) := by
  intro c r' e
  simp at e
  rw [← e.1]; exact hx

theorem starW_nohead {α : Type} (k : K α) (hk : HeadLBr k) (r1 : List Char) (hr : NoWordHead r1) (c : Caps) :
    starW.m r1 c k = k r1 c := by
  have := starW_m k hk [] r1 (by intro _ h; cases h) hr c
  simpa using this

theorem optDot_not_dot {α : Type} (x : Char) (r : List Char) (hx : x ≠ '.') (c : Caps) (kS : K α) :
    optDot.m (x :: r) c kS = kS (x :: r) c := by
  rw [optDot_cons]
  simp [hx]

theorem greedy_plus_nohead {α : Type} (k2 : List Char → Option α) (r3 : List Char) (hr : NoWordHead r3) :
    greedyChr isWord 1 k2 0 r3 = none := by
  cases r3 with
  | nil => simp [greedyChr]
  | cons x r => simp [greedyChr, hr x r rfl]

/-- `(?:\.\w+)?\w*` on `.` + a non-empty word run -/
theorem optDot_dot_word {α : Type} (k : K α) (hk : HeadLBr k) (w2 r3 : List Char) (hne : w2 ≠ []) (hw : AllWord w2)
    (hr : NoWordHead r3) (c : Caps) :
    optDot.m ('.' :: (w2 ++ r3)) c (fun s' c' => starW.m s' c' k) = k r3 c := by
  rw [optDot_cons]
  simp only [beq_self_eq_true, if_true, wordPlus_m]
  have hlen : r3.length < (w2 ++ r3).length + 1 := by simp; omega
  have hcol := greedy_collapse 1
    (fun s' => if s'.length < (w2 ++ r3).length + 1 then starW.m s' c k else none) r3 hr
    (by
      intro w' hne' hw'
      simp only [hlen, if_true]
      split
      · right; rw [starW_m k hk w' r3 hw' hr, starW_nohead k hk r3 hr]
      · left; rfl)
    w2 0 hw (by cases w2 with
      | nil => exact absurd rfl hne
      | cons a b => simp)
  rw [hcol]
  simp only [hlen, if_true, starW_nohead k hk r3 hr]
  cases hv : k r3 c with
  | some v => rfl
  | none =>
    simp only []
    rw [starW_nohead k hk _ (noWordHead_cons '.' _ isWord_dot)]
    exact hk _ c (by intro r e; simp at e)

/-- `(?:\.\w+)?\w*` on `.` not followed by a word character -/
theorem optDot_dot_nohead {α : Type} (k : K α) (hk : HeadLBr k) (r3 : List Char) (hr : NoWordHead r3) (c : Caps) :
    optDot.m ('.' :: r3) c (fun s' c' => starW.m s' c' k) = none := by
  rw [optDot_cons]
  simp only [beq_self_eq_true, if_true, wordPlus_m, greedy_plus_nohead _ r3 hr]
  rw [starW_nohead k hk _ (noWordHead_cons '.' _ isWord_dot)]
  exact hk _ c (by intro r e; simp at e)

/-- `(?:\.\w+)?\w*` on a text that starts with neither a word character nor `.` -/
theorem optDot_other {α : Type} (k : K α) (hk : HeadLBr k) (r1 : List Char) (hr : NoWordHead r1)
    (hd : ∀ r, r1 ≠ '.' :: r) (c : Caps) :
    optDot.m r1 c (fun s' c' => starW.m s' c' k) = k r1 c := by
  cases r1 with
  | nil => rw [optDot_nil, starW_nohead k hk [] hr]
  | cons x r =>
    rw [optDot_not_dot x r (by intro e; exact hd r (by rw [e])), starW_nohead k hk _ hr]

/-- `\w+(?:\.\w+)?\w*` on a non-empty word run followed by `r1`: only the tail after the run matters -/
theorem nameRe_run {α : Type} (k : K α) (hk : HeadLBr k) (w1 r1 : List Char) (hne : w1 ≠ []) (hw : AllWord w1)
    (hr : NoWordHead r1) (c : Caps) :
    nameRe.m (w1 ++ r1) c k = optDot.m r1 c (fun s' c' => starW.m s' c' k) := by
  unfold nameRe
  rw [m_seq, wordPlus_m]
  simp only [m_seq]
  apply greedy_collapse 1 (fun s' => optDot.m s' c (fun s' c' => starW.m s' c' k)) r1 hr _ w1 0 hw
    (by cases w1 with
      | nil => exact absurd rfl hne
      | cons a b => simp)
  intro w' hne' hw'
  have e1 : optDot.m (w' ++ r1) c (fun s' c' => starW.m s' c' k) = k r1 c := by
    cases w' with
    | nil => exact absurd rfl hne'
    | cons a b =>
      have ha : isWord a = true := hw' a List.mem_cons_self
      rw [List.cons_append, optDot_not_dot a _ (by intro e; rw [e] at ha; exact absurd ha (by decide))]
      exact starW_m k hk (a :: b) r1 hw' hr c
  rw [e1]
  by_cases hd : ∀ r, r1 ≠ '.' :: r
  · right; rw [optDot_other k hk r1 hr hd]
  · left
    apply hk
    intro r e
    apply hd
    intro r' e'
    rw [e] at e'
    simp at e'

theorem nameRe_norun {α : Type} (k : K α) (r1 : List Char) (hr : NoWordHead r1) (c : Caps) :
    nameRe.m r1 c k = none := by
  unfold nameRe
  rw [m_seq, wordPlus_m]
  exact greedy_plus_nohead _ r1 hr

theorem span_eq (s w r : List Char) (h : span isWord s = (w, r)) : s = w ++ r ∧ AllWord w ∧ NoWordHead r := by
  have hs := span_spec isWord s
  rw [h] at hs
  exact hs

/-- the name part of the pattern, before anything that needs `[`, is `matchName`: success -/
theorem nameRe_some {α : Type} (k : K α) (hk : HeadLBr k) (s name r : List Char) (c : Caps)
    (h : matchName s = some (name, r)) : nameRe.m s c k = k ('[' :: r) c ∧ s = name ++ '[' :: r := by
  unfold matchName at h
  split at h
  · exact absurd h (by simp)
  · next _ w1 r1 hne heq =>
    obtain ⟨e, hw, hr⟩ := span_eq s _ _ heq
    injection h with h; injection h with h1 h2; subst h1; subst h2
    refine ⟨?_, e⟩
    rw [e, nameRe_run k hk w1 _ hne hw hr, optDot_other k hk _ hr (by intro r e; simp at e)]
  · next _ w1 r1 hne heq =>
    obtain ⟨e, hw, hr⟩ := span_eq s _ _ heq
    split at h
    · exact absurd h (by simp)
    · next _ w2 r2 hne2 heq2 =>
      obtain ⟨e2, hw2, hr2⟩ := span_eq r1 _ _ heq2
      injection h with h; injection h with h1 h2; subst h1; subst h2
      refine ⟨?_, by rw [e, e2]; simp⟩
      rw [e, nameRe_run k hk w1 _ hne hw hr, e2, optDot_dot_word k hk w2 _ hne2 hw2 hr2]
    · exact absurd h (by simp)
  · exact absurd h (by simp)

/-- … failure -/
theorem nameRe_none {α : Type} (k : K α) (hk : HeadLBr k) (s : List Char) (c : Caps)
    (h : matchName s = none) : nameRe.m s c k = none := by
  unfold matchName at h
  split at h
  · next _ r1 heq =>
    obtain ⟨e, _, hr⟩ := span_eq s _ _ heq
    rw [e]; exact nameRe_norun k r1 hr c
  · exact absurd h (by simp)
  · next _ w1 r1 hne heq =>
    obtain ⟨e, hw, hr⟩ := span_eq s _ _ heq
    rw [e, nameRe_run k hk w1 _ hne hw hr]
    split at h
    · next _ r3 heq2 =>
      obtain ⟨e2, _, hr2⟩ := span_eq r1 _ _ heq2
      rw [e2]; exact optDot_dot_nohead k hk r3 hr2 c
    · exact absurd h (by simp)
    · next _ h1 h2 =>
      cases hsp : span isWord r1 with
      | mk w2 r3 =>
        obtain ⟨e2, hw2, hr2⟩ := span_eq r1 _ _ hsp
        have hne2 : w2 ≠ [] := by intro e; subst e; exact h1 r3 hsp
        rw [e2, optDot_dot_word k hk w2 r3 hne2 hw2 hr2]
        apply hk
        intro r e'
        subst e'
        exact h2 w2 r hsp
  · next _ h1 h2 h3 =>
    cases hsp : span isWord s with
    | mk w1 r1 =>
      obtain ⟨e, hw, hr⟩ := span_eq s _ _ hsp
      have hne : w1 ≠ [] := by intro e; subst e; exact h1 r1 hsp
      rw [e, nameRe_run k hk w1 r1 hne hw hr,
        optDot_other k hk r1 hr (by intro r e'; subst e'; exact h3 w1 r hsp)]
      apply hk
      intro r e'
      subst e'
      exact h2 w1 r hsp

/-! ### the index part `\[(.+?)\]` -/

theorem scanIdx_split : ∀ (t acc i r' : List Char), scanIdx acc t = some (i, r') →
    ∃ u, t = u ++ ']' :: r' ∧ i = acc.reverse ++ u
  | [], acc, i, r', h => by simp [scanIdx] at h
  | d :: ds, acc, i, r', h => by
    simp only [scanIdx] at h
    split at h
    · next hd =>
      injection h with h; injection h with h1 h2
      refine ⟨[], ?_, by simp [h1]⟩
      have : d = ']' := by simpa using hd
      simp [this, h2]
    · split at h
      · exact absurd h (by simp)
      · obtain ⟨u, e1, e2⟩ := scanIdx_split ds _ i r' h
        exact ⟨d :: u, by simp [e1], by simp [e2]⟩

theorem matchIdx_split (t i r' : List Char) (h : matchIdx t = some (i, r')) : t = i ++ ']' :: r' := by
  cases t with
  | nil => simp [matchIdx] at h
  | cons x cs =>
    simp only [matchIdx] at h
    split at h
    · exact absurd h (by simp)
    · obtain ⟨u, e1, e2⟩ := scanIdx_split cs _ i r' h
      simp [e1, e2]

/-- lazy `.+?` before a continuation that needs `]`: stops at the first `]`, fails at a newline — `scanIdx` -/
theorem lazy_scanIdx {β : Type} (kk : List Char → Option β) (G : List Char → β)
    (hk1 : ∀ r', kk (']' :: r') = some (G r')) (hk2 : ∀ s2, (∀ r', s2 ≠ ']' :: r') → kk s2 = none) :
    ∀ (t acc : List Char) (n : Nat), 1 ≤ n →
      lazyChr CC.any.test 1 kk n t = (scanIdx acc t).map (fun p => G p.2)
  | [], acc, n, hn => by
    simp only [lazyChr, hn, if_true, scanIdx, Option.map_none]
    exact hk2 [] (by intro r' e; cases e)
  | d :: ds, acc, n, hn => by
    simp only [lazyChr, hn, if_true, scanIdx]
    by_cases hd : d = ']'
    · subst hd
      simp [hk1]
    · have hnone : kk (d :: ds) = none := hk2 _ (by intro r' e; simp at e; exact hd e.1)
      simp only [hnone, beq_iff_eq, hd, if_false]
      by_cases hnl : d = '\n'
      · subst hnl; simp [CC.test]
      · have := lazy_scanIdx kk G hk1 hk2 ds (d :: acc) (n + 1) (by omega)
        simp [CC.test, hnl, this]

theorem lazy_matchIdx {β : Type} (kk : List Char → Option β) (G : List Char → β)
    (hk1 : ∀ r', kk (']' :: r') = some (G r')) (hk2 : ∀ s2, (∀ r', s2 ≠ ']' :: r') → kk s2 = none) (t : List Char) :
    lazyChr CC.any.test 1 kk 0 t = (matchIdx t).map (fun p => G p.2) := by
  cases t with
  | nil => simp [lazyChr, matchIdx]
  | cons x cs =>
    simp only [lazyChr, matchIdx, Nat.not_succ_le_zero, if_false]
    by_cases hnl : x = '\n'
    · subst hnl; simp [CC.test]
    · have := lazy_scanIdx kk G hk1 hk2 cs [x] 1 (Nat.le_refl _)
      simp [CC.test, hnl, this]

/-- the final continuation of `matchAt` -/
def kfin : K (Caps × List Char) := fun s' c => some (c, s')

theorem idxRe_headLBr : HeadLBr (fun s c => idxRe.m s c kfin) := by
  intro s c h
  show idxRe.m s c kfin = none
  unfold idxRe
  cases s with
  | nil => rw [m_seq, m_chr_nil]
  | cons x r =>
    rw [m_seq, m_chr_cons]
    have : x ≠ '[' := by intro e; exact h r (by rw [e])
    simp [CC.test, this]

theorem idxRe_m (r : List Char) (c : Caps) :
    idxRe.m ('[' :: r) c kfin =
      match matchIdx r with
      | some (idx, r') => some ((2, idx) :: c, r')
      | none => none := by
  unfold idxRe
  rw [m_seq, m_chr_cons]
  simp only [CC.test, beq_self_eq_true, if_true, m_seq, m_grp, m_rep]
  rw [rep_lazy_chr _ _ _ _ _ _ _ (Nat.lt_succ_self _)]
  rw [lazy_matchIdx _ (fun r' => ((2, r.take (r.length - (r'.length + 1))) :: c, r'))]
  · cases h : matchIdx r with
    | none => rfl
    | some p =>
      obtain ⟨idx, r'⟩ := p
      have e := matchIdx_split r idx r' h
      simp only [Option.map_some]
      have : r.take (r.length - (r'.length + 1)) = idx := by
        rw [e]; simp
      rw [this]
  · intro r'
    rw [m_chr_cons]
    simp [CC.test, kfin]
  · intro s2 h2
    cases s2 with
    | nil => rw [m_chr_nil]
    | cons y t =>
      rw [m_chr_cons]
      have : y ≠ ']' := by intro e; exact h2 t (by rw [e])
      simp [CC.test, this]

/-- **one match attempt of the regex = one step of the scanner**, at every text -/
theorem matchAt_arrayRe (s : List Char) :
    matchAt arrayRe s =
      match matchName s with
      | none => none
      | some (name, r) =>
        match matchIdx r with
        | none => none
        | some (idx, r') => some ([(2, idx), (1, name)], r') := by
  unfold matchAt
  rw [arrayRe_eq, m_seq, m_grp]
  have hk : HeadLBr (fun s' c' => (fun s'' c'' => idxRe.m s'' c'' kfin) s' ((1, s.take (s.length - s'.length)) :: c')) := by
    intro s' c' h
    exact idxRe_headLBr s' _ h
  cases h : matchName s with
  | none => exact nameRe_none _ hk s [] h
  | some p =>
    obtain ⟨name, r⟩ := p
    obtain ⟨e1, e2⟩ := nameRe_some _ hk s name r [] h
    refine Eq.trans e1 ?_
    have : s.take (s.length - ('[' :: r).length) = name := by
      rw [e2]; simp
    show idxRe.m ('[' :: r) [(1, s.take (s.length - ('[' :: r).length))] kfin = _
    rw [this, idxRe_m]
    show _ = (match matchIdx r with
      | none => none
      | some (idx, r') => some ([(2, idx), (1, name)], r'))
    cases matchIdx r with
    | none => rfl
    | some q => rfl

/-! ### `findall` -/

theorem matchAt_arrayRe_nil : matchAt arrayRe [] = none := by
  rw [matchAt_arrayRe]; rfl

theorem findAll_eq_reFindAll : ∀ (fuel : Nat) (xs : List Char),
    findAll fuel xs = (reFindAll arrayRe fuel xs).map toSpec
  | 0, xs => by cases xs <;> simp [findAll, reFindAll]
  | fuel + 1, [] => by simp [findAll, reFindAll, matchAt_arrayRe_nil]
  | fuel + 1, c :: cs => by
    have ih := findAll_eq_reFindAll fuel
    simp only [findAll, reFindAll]
    rw [matchAt_arrayRe]
    cases h1 : matchName (c :: cs) with
    | none => simp [ih]
    | some p =>
      obtain ⟨name, r⟩ := p
      cases h2 : matchIdx r with
      | none => simp [h2, ih]
      | some q =>
        obtain ⟨idx, r'⟩ := q
        have l1 := matchName_length _ _ _ h1
        have l2 := matchIdx_length _ _ _ h2
        have : r'.length < (c :: cs).length := by omega
        have l3 : r'.length < cs.length + 1 := by simpa using this
        simp [h2, l3, ih, capGet, toSpec]

theorem reFindAll_fuel : ∀ (f g : Nat) (xs : List Char), xs.length < f → xs.length < g →
    reFindAll arrayRe f xs = reFindAll arrayRe g xs
  | 0, _, _, h, _ => absurd h (by simp)
  | _ + 1, 0, _, _, h => absurd h (by simp)
  | f + 1, g + 1, [], _, _ => by simp [reFindAll, matchAt_arrayRe_nil]
  | f + 1, g + 1, c :: cs, hf, hg => by
    have hf' : cs.length < f := by simpa using hf
    have hg' : cs.length < g := by simpa using hg
    simp only [reFindAll]
    rw [matchAt_arrayRe]
    cases h1 : matchName (c :: cs) with
    | none => simp [reFindAll_fuel f g cs hf' hg']
    | some p =>
      obtain ⟨name, r⟩ := p
      cases h2 : matchIdx r with
      | none => simp [h2, reFindAll_fuel f g cs hf' hg']
      | some q =>
        obtain ⟨idx, r'⟩ := q
        have l1 := matchName_length _ _ _ h1
        have l2 := matchIdx_length _ _ _ h2
        have : r'.length < (c :: cs).length := by omega
        have l3 : r'.length < cs.length + 1 := by simpa using this
        simp [h2, l3, reFindAll_fuel f g r' (by omega) (by omega)]

theorem parseSide_eq_re (xs : List Char) : parseSide xs = parseSideRe xs := by
  unfold parseSide parseSideRe
  rw [findAll_fuel xs.length (xs.length + 1) xs (Nat.le_refl _) (Nat.le_succ _), findAll_eq_reFindAll]

end PF.MS
