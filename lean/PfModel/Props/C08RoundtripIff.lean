import PfModel.Props.C08
import PfModel.Lemmas.MapSpecParseRank
/-!
C08, proof round 2 — the hypothesis `WF` of the round-trip clause, settled.

`C08_roundtrip` assumes `WF m` = `Valid m` ∧ every rank ≥ 1, where the property text says "every well-formed MapSpec".
Here: the hypothesis is exact (`from_string(str(m)) == m` holds IFF `WF m`), the rank condition is the only thing that
separates it from "the constructor accepted `m`", everything `from_string` accepts satisfies it, and it is decidable
by the expression the driver evaluates per case (`wfB`).  Theorems and examples only; lemmas in
`Lemmas/MapSpecParseRank.lean`.
-/
namespace PF.C08
open PF.MS

/-- `from_string` never returns a rank-0 array, for every string (the index group `(.+?)` needs a character and
    `split(",")` never returns an empty list). -/
theorem C08_parse_rank_pos (s : String) (m : MapSpec) (h : parse s = .ok m) :
    ∀ a ∈ m.inputs ++ m.outputs, a.axes ≠ [] := parseChars_axes_ne_nil s.toList m h

/-- Everything `from_string` accepts is well-formed in the sense of the round-trip theorem (strengthens
    `C08_parse_accepts_only_valid` from `Valid` to `WF`). -/
theorem C08_parse_wf (s : String) (m : MapSpec) (h : parse s = .ok m) : WF m :=
  ⟨C08_parse_accepts_only_valid s m h, C08_parse_rank_pos s m h⟩

/-- The round trip holds EXACTLY for the `WF` specs: the hypothesis of `C08_roundtrip` cannot be weakened. -/
theorem C08_roundtrip_iff (m : MapSpec) : parse (toStr m) = .ok m ↔ WF m :=
  ⟨C08_parse_wf (toStr m) m, C08_roundtrip m⟩

/-- At user level: for a spec the constructor returned, `from_string(str(m)) == m` iff no array has rank 0. -/
theorem C08_roundtrip_constructed_iff (ins outs : List ArraySpec) (m : MapSpec) (h : construct ins outs = .ok m) :
    parse (toStr m) = .ok m ↔ ∀ a ∈ ins ++ outs, a.axes ≠ [] := by
  obtain ⟨he, hv⟩ := (C08_wf_iff_accepted ins outs m).mp h
  subst he
  rw [C08_roundtrip_iff]
  exact ⟨fun hw => hw.2, fun hr => ⟨hv, hr⟩⟩

/-- `WF` is decided by the check the driver runs per case (`wfB`): the constructor accepts the fields and no rank is 0. -/
theorem C08_wf_decided (m : MapSpec) : WF m ↔ wfDec m = true := (wfDec_iff m).symm

/-- Whatever text `from_string` accepts, printing the result and parsing again gives the same spec
    (`str` is a canonical form for every accepted string, mutated ones included). -/
theorem C08_parse_str_fixpoint (s : String) (m : MapSpec) (h : parse s = .ok m) : parse (toStr m) = .ok m :=
  C08_roundtrip m (C08_parse_wf s m h)

/-- `str` separates well-formed specs: two of them with the same printing are equal. -/
theorem C08_str_injective (m m' : MapSpec) (h : WF m) (h' : WF m') (e : toStr m = toStr m') : m = m' := by
  have h1 := C08_roundtrip m h
  rw [e, C08_roundtrip m' h'] at h1
  injection h1 with h1
  exact h1.symm

/-- The rank condition is needed: `x[] -> y[]` is accepted by the constructor (it is `Valid`), prints as `x[] -> y[]`,
    and that text is rejected: no array matches, so both sides are empty and `outputs[0]` raises `IndexError`. -/
theorem C08_roundtrip_rank0_witness :
    construct rank0.inputs rank0.outputs = .ok rank0 ∧ Valid rank0 ∧ ¬ WF rank0 ∧
    toStr rank0 = "x[] -> y[]" ∧ parse (toStr rank0) = .error .indexError := by
  have hc : construct rank0.inputs rank0.outputs = .ok rank0 := rfl
  refine ⟨hc, ((C08_wf_iff_accepted _ _ _).mp hc).2, ?_, by decide, rfl⟩
  intro hw
  exact hw.2 ⟨"x", []⟩ (by simp [rank0]) rfl

/-! ## non-vacuity -/

example : parse "x[i,j] ,y.s[ j,:,k]->z[i, j, k]" = .ok ex1 := rfl
example : ∀ a ∈ ex1.inputs ++ ex1.outputs, a.axes ≠ [] :=
  C08_parse_rank_pos "x[i,j] ,y.s[ j,:,k]->z[i, j, k]" ex1 rfl
example : WF ex1 := C08_parse_wf "x[i,j] ,y.s[ j,:,k]->z[i, j, k]" ex1 rfl
example : parse (toStr ex1) = .ok ex1 := (C08_roundtrip_iff ex1).mpr ⟨C08_nonvacuous_ex1, by decide⟩
example : construct ex1.inputs ex1.outputs = .ok ex1 := rfl
example : parse (toStr ex1) = .ok ex1 :=
  (C08_roundtrip_constructed_iff ex1.inputs ex1.outputs ex1 rfl).mpr (by decide)
example : wfDec ex1 = true ∧ wfDec ex2 = true ∧ wfDec rank0 = false := by decide
example : parse (toStr ex1) = .ok ex1 := C08_parse_str_fixpoint "x[i,j] ,y.s[ j,:,k]->z[i, j, k]" ex1 rfl
example : WF ex2 ∧ ex1 ≠ ex2 := ⟨⟨C08_nonvacuous_ex2, by decide⟩, by decide⟩
example : toStr ex1 ≠ toStr ex2 :=
  fun e => absurd (C08_str_injective ex1 ex2 ⟨C08_nonvacuous_ex1, by decide⟩ ⟨C08_nonvacuous_ex2, by decide⟩ e) (by decide)

end PF.C08
