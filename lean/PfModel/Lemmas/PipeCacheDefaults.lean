import PfModel.Lemmas.PipeCache
/-!
C09, extension: `Pipeline.update_defaults` never invalidates a resident cache entry.

The key of an entry contains, for every root argument of the requested output, the hashable of its *effective* value
(keyword, else default).  A call `kw` of the pipeline after `update_defaults` therefore computes the key — and the value —
of the call `kw ++ defaults-after-the-update` of the pipeline before it, for which the entry was right.
-/
namespace PF.PipeCache
open PF PF.Pipe

/-- what `update_defaults(d)` does to one function -/
def updF (d : List (String × Val)) (f : Func) : Func :=
  { f with defaults := upsert (d.filter fun kv => f.params.any (·.1 = kv.1) && (alookup f.bound kv.1).isNone) f.defaults }

theorem updateDefaults_eq (fs : List Func) (d : List (String × Val)) : updateDefaults fs d = fs.map (updF d) := rfl

theorem producer_upd (fs : List Func) (d : List (String × Val)) (o : String) :
    producer (fs.map (updF d)) o = (producer fs o).map (updF d) := by
  unfold producer
  rw [List.find?_map]
  rfl

theorem reach_upd (fs : List Func) (d : List (String × Val)) : ∀ n o, reach (fs.map (updF d)) n o = reach fs n o := by
  intro n
  induction n with
  | zero => intro o; rfl
  | succ n ih =>
    intro o
    simp only [reach, producer_upd]
    cases producer fs o with
    | none => rfl
    | some f =>
      simp only [Option.map_some]
      show (f.params.flatMap fun pq => if (alookup f.bound pq.1).isSome then [] else pq.1 :: reach (fs.map (updF d)) n pq.1) = _
      simp only [ih]

theorem fuelFor_upd (fs : List Func) (d : List (String × Val)) : fuelFor (fs.map (updF d)) = fuelFor fs := by
  simp [fuelFor]

theorem reachAll_upd (fs : List Func) (d : List (String × Val)) (o : String) : reachAll (fs.map (updF d)) o = reachAll fs o := by
  unfold reachAll; rw [fuelFor_upd, reach_upd]

theorem producer_upd_isNone (fs : List Func) (d : List (String × Val)) (p : String) :
    (producer (fs.map (updF d)) p).isNone = (producer fs p).isNone := by
  rw [producer_upd]; cases producer fs p <;> rfl

theorem rootsOf_upd (fs : List Func) (d : List (String × Val)) (o : String) : rootsOf (fs.map (updF d)) o = rootsOf fs o := by
  unfold rootsOf
  rw [reachAll_upd]
  simp only [producer_upd_isNone]

theorem upstreamOutputs_upd (fs : List Func) (d : List (String × Val)) (o : String) :
    upstreamOutputs (fs.map (updF d)) o = upstreamOutputs fs o := by
  unfold upstreamOutputs
  rw [reachAll_upd]
  congr 1
  funext p
  rw [producer_upd]
  cases producer fs p <;> rfl

theorem upstream_produced (fs : List Func) (o x : String) (h : x ∈ upstreamOutputs fs o) : (producer fs x).isSome := by
  simp only [upstreamOutputs, List.mem_flatMap] at h
  obtain ⟨p, _, hx⟩ := h
  cases hp : producer fs p with
  | none => simp [hp] at hx
  | some g =>
    simp only [hp] at hx
    unfold producer
    rw [List.find?_isSome]
    exact ⟨g, (producer_mem fs p g hp).1, by simpa using hx⟩

theorem pdefault_root (fs : List Func) (x : String) (a : Val) (h : pdefault fs x = some a) : producer fs x = none := by
  unfold pdefault at h
  have hm := List.mem_reverse.mp (alookup_some_mem _ _ _ h)
  obtain ⟨_, _, _, _, hp⟩ := (mem_pdefaults fs x a).mp hm
  cases hx : producer fs x with
  | none => rfl
  | some g => simp [hx] at hp

section Upd
variable (fs : List Func) (d : List (String × Val)) (kw : List (String × Val))

/-- the call of the pipeline *before* the update that the call `kw` *after* it amounts to: the defaults in force after the
    update are passed as keywords -/
def kwStar : List (String × Val) := kw ++ (pdefaults (fs.map (updF d))).reverse

theorem kwStar_some (x : String) (a : Val) (h : alookup kw x = some a) : alookup (kwStar fs d kw) x = some a := by
  unfold kwStar; rw [alookup_append, h]

theorem kwStar_none (x : String) (h : alookup kw x = none) : alookup (kwStar fs d kw) x = pdefault (fs.map (updF d)) x := by
  unfold kwStar pdefault; rw [alookup_append, h]

theorem kwStar_produced (x : String) (h : alookup kw x = none) (hp : (producer fs x).isSome) : alookup (kwStar fs d kw) x = none := by
  rw [kwStar_none fs d kw x h]
  cases hd : pdefault (fs.map (updF d)) x with
  | none => rfl
  | some a =>
    have := pdefault_root _ x a hd
    rw [producer_upd] at this
    cases hx : producer fs x with
    | none => simp [hx] at hp
    | some g => simp [hx] at this

theorem resolve_upd_val (f : Func) (p : String) (v : Val) (h : resolve (fs.map (updF d)) kw (updF d f) p = .val v) :
    resolve fs (kwStar fs d kw) f p = .val v := by
  unfold resolve at h ⊢
  have hb : (updF d f).bound = f.bound := rfl
  rw [hb] at h
  cases hbd : alookup f.bound p with
  | some w => simpa [hbd] using h
  | none =>
    simp only [hbd] at h ⊢
    cases hk : alookup kw p with
    | some w => simp only [hk] at h; simp only [kwStar_some fs d kw p w hk]; exact h
    | none =>
      simp only [hk] at h
      rw [producer_upd] at h
      cases hp : producer fs p with
      | some g => simp [hp] at h
      | none =>
        simp only [hp, Option.map_none] at h
        cases hd : pdefault (fs.map (updF d)) p with
        | none => simp [hd] at h
        | some a =>
          simp only [hd] at h
          rw [kwStar_none fs d kw p hk, hd]
          exact h

theorem resolve_upd_up (f : Func) (p : String) (h : resolve (fs.map (updF d)) kw (updF d f) p = .upstream) :
    resolve fs (kwStar fs d kw) f p = .upstream := by
  unfold resolve at h ⊢
  have hb : (updF d f).bound = f.bound := rfl
  rw [hb] at h
  cases hbd : alookup f.bound p with
  | some w => simp [hbd] at h
  | none =>
    simp only [hbd] at h ⊢
    cases hk : alookup kw p with
    | some w => simp [hk] at h
    | none =>
      simp only [hk] at h
      rw [producer_upd] at h
      cases hp : producer fs p with
      | some g =>
        rw [kwStar_produced fs d kw p hk (by simp [hp])]
      | none =>
        simp only [hp, Option.map_none] at h
        cases hd : pdefault (fs.map (updF d)) p <;> simp [hd] at h

theorem composeArgs_upd (r' r : String → Except Err Val) (hr : ∀ p v, r' p = .ok v → r p = .ok v) (f : Func) :
    ∀ ps args, composeArgsWith r' (fs.map (updF d)) kw (updF d f) ps = .ok args →
      composeArgsWith r fs (kwStar fs d kw) f ps = .ok args := by
  intro ps
  induction ps with
  | nil => intro args h; simpa [composeArgsWith] using h
  | cons pq ps ih =>
    obtain ⟨p, orig⟩ := pq
    intro args h
    simp only [composeArgsWith] at h ⊢
    cases hres : resolve (fs.map (updF d)) kw (updF d f) p with
    | missing => simp [hres] at h
    | val v =>
      simp only [hres] at h
      rw [resolve_upd_val fs d kw f p v hres]
      simp only []
      cases hrest : composeArgsWith r' (fs.map (updF d)) kw (updF d f) ps with
      | error e => simp [hrest] at h
      | ok rest => simp only [hrest] at h; rw [ih rest hrest]; exact h
    | upstream =>
      simp only [hres] at h
      rw [resolve_upd_up fs d kw f p hres]
      simp only []
      cases hp : r' p with
      | error e => simp [hp] at h
      | ok v =>
        simp only [hp] at h
        rw [hr p v hp]
        simp only []
        cases hrest : composeArgsWith r' (fs.map (updF d)) kw (updF d f) ps with
        | error e => simp [hrest] at h
        | ok rest => simp only [hrest] at h; rw [ih rest hrest]; exact h

/-- the value a call computes after the update is the value the call `kwStar` computes before it -/
theorem compose_upd : ∀ k o v, compose (fs.map (updF d)) kw k o = .ok v → compose fs (kwStar fs d kw) k o = .ok v := by
  intro k
  induction k with
  | zero => intro o v h; simp [compose] at h
  | succ k ih =>
    intro o v h
    rw [compose_succ] at h ⊢
    rw [producer_upd] at h
    cases hp : producer fs o with
    | none => simp [hp] at h
    | some f =>
      simp only [hp, Option.map_some] at h ⊢
      cases hargs : composeArgsWith (compose (fs.map (updF d)) kw k) (fs.map (updF d)) kw (updF d f) (updF d f).params with
      | error e => simp [hargs] at h
      | ok args =>
        simp only [hargs] at h
        have hps : (updF d f).params = f.params := rfl
        rw [hps] at hargs
        rw [composeArgs_upd fs d kw _ _ ih f f.params args hargs]
        exact h

theorem collect_congr {H} (h : Val → H) (v v' : String → Option Val) :
    ∀ xs, (∀ x ∈ xs, ∀ a, v x = some a → v' x = some a) → ∀ it, collect v h xs = some it → collect v' h xs = some it := by
  intro xs
  induction xs with
  | nil => intro _ it h1; exact h1
  | cons y ys ih =>
    intro hv it h1
    simp only [collect] at h1 ⊢
    cases hy : v y with
    | none => simp [hy] at h1
    | some a =>
      simp only [hy] at h1
      rw [hv y (by simp) a hy]
      simp only []
      cases hc : collect v h ys with
      | none => simp [hc] at h1
      | some r =>
        simp only [hc] at h1
        rw [ih (fun x hx => hv x (List.mem_cons_of_mem _ hx)) r hc]
        exact h1

/-- the key a call computes after the update is the key the call `kwStar` computes before it -/
theorem computeKey_upd {H} (h : Val → H) (hc : ConsistentDefaults (fs.map (updF d))) (f : Func) (hf : f ∈ fs) (o : String) (K : Key H)
    (hk : computeKey h (fs.map (updF d)) kw (updF d f) o = some K) : computeKey h fs (kwStar fs d kw) f o = some K := by
  obtain ⟨hi, hcol, hout⟩ := computeKey_some h _ kw _ o K hk
  have hi' : intermediateSupplied fs (kwStar fs d kw) o = false := by
    cases hx : intermediateSupplied fs (kwStar fs d kw) o with
    | false => rfl
    | true =>
      exfalso
      simp only [intermediateSupplied, List.any_eq_true] at hx
      obtain ⟨x, hxk, hxu⟩ := hx
      have hxu' : x ∈ upstreamOutputs fs o := by simpa using hxu
      have hprod := upstream_produced fs o x hxu'
      cases hkx : alookup kw x with
      | some a =>
        have : intermediateSupplied (fs.map (updF d)) kw o = true := by
          simp only [intermediateSupplied, List.any_eq_true, upstreamOutputs_upd]
          refine ⟨x, ?_, hxu⟩
          have := alookup_some_mem _ _ _ hkx
          simp only [akeys, List.mem_map]
          exact ⟨(x, a), this, rfl⟩
        rw [hi] at this; cases this
      | none =>
        have hnone := kwStar_produced fs d kw x hkx hprod
        have := (alookup_none_iff _ x).mp hnone
        exact this hxk
  rw [rootsOf_upd] at hcol
  have hcol' : collect (keyView fs f (kwStar fs d kw)) h (rootsOf fs o) = some K.items := by
    apply collect_congr h _ _ _ _ K.items hcol
    intro x hx a ha
    have hxroot : producer fs x = none := by
      simp only [rootsOf, mem_normNames, List.mem_filter] at hx
      cases hp : producer fs x with
      | none => rfl
      | some g => simp [hp] at hx
    unfold keyView at ha ⊢
    cases hkx : alookup kw x with
    | some w => simp only [hkx] at ha; simp only [kwStar_some fs d kw x w hkx]; exact ha
    | none =>
      simp only [hkx] at ha
      have hroot' : producer (fs.map (updF d)) x = none := by rw [producer_upd, hxroot]; rfl
      have hpd := funcDefaults_root _ hc (updF d f) (List.mem_map.mpr ⟨f, hf, rfl⟩) x a hroot' ha
      rw [kwStar_none fs d kw x hkx, hpd]
  unfold computeKey
  rw [hi']
  simp only [Bool.false_eq_true, ↓reduceIte, hcol']
  have : (updF d f).outputs = f.outputs := rfl
  rw [this] at hout
  cases K
  simp only at hout
  subst hout
  rfl

end Upd

/-- **`update_defaults` keeps every resident entry right.** -/
theorem inv_updateDefaults {H C} (P : Policy H C) (h : Val → H) (fs : List Func) (d : List (String × Val))
    (hc : ConsistentDefaults (updateDefaults fs d)) (c : C) (hi : Inv P h fs c) : Inv P h (updateDefaults fs d) c := by
  rw [updateDefaults_eq] at hc ⊢
  intro K r hres f' o kw k v hp hk hcomp
  rw [producer_upd] at hp
  cases hpf : producer fs o with
  | none => simp [hpf] at hp
  | some f =>
    simp only [hpf, Option.map_some, Option.some.injEq] at hp
    subst hp
    have hfm := (producer_mem fs o f hpf).1
    have hkey := computeKey_upd fs d kw h hc f hfm o K hk
    have hval := compose_upd fs d kw k o v hcomp
    exact hi K r hres f o (kwStar fs d kw) k v hpf hkey hval

end PF.PipeCache
