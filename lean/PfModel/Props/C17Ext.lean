import PfModel.Props.C17
import PfModel.Lemmas.SweepProductEnum
import PfModel.Lemmas.SweepFiltered
import PfModel.Lemmas.SweepFilteredPlain3
import PfModel.Model.SweepCount
/-!
# C17, extension (round 2): the product clause at full strength

`C17_product` closes what `C17_product_partial` left to the correspondence check: the merged `items` / `dims` of
`Sweep.product` enumerate exactly the Cartesian product of the operands' raw combination lists.
-/
namespace PF.C17
open PF.Sweep

variable {V : Type}

/-- **Enumeration half of the product clause.**  Under `ProductHyps`, `product` does not raise, its result is a
    well-formed sweep, and the raw combinations of the result (the Cartesian product of its zipped groups, before
    constants / derivers / exclude) are the Cartesian product of the operands' raw combinations, merged, in order. -/
theorem C17_product_enum (s : Sweep V) (others : List (Sweep V)) (h : ProductHyps s others) :
    ∃ p, product s others = .ok p ∧ wf p = true ∧ p.items.isEmpty = false ∧
      rawList p = prodAll ((s :: others).map rawList) := by
  have hid := h.itemsDisjoint
  obtain ⟨p, hp, hi, hd⟩ := product_ok s others h.hne h.hc h.hd
  have hn := nodup_keys_catItems (s :: others) h.wf hid
  have hcat : catItems (s :: others) = s.items ++ catItems others := by simp [catItems]
  have hi' : p.items = catItems (s :: others) := by
    rw [hi, hcat]
    apply foldl_update_cat
    rw [← keys_append, ← hcat]; exact hn
  have hpe : p.items.isEmpty = false := by
    have := h.nonempty s (by simp)
    rw [hi', hcat]
    cases hs : s.items with
    | nil => simp [hs] at this
    | cons _ _ => rfl
  have hdims : ∀ d, s.dims = some d → others.foldl (fun acc o => acc ++ dimsOf o) d = catDims (s :: others) := by
    intro d hsd
    have hds : dimsOf s = d := by simp [dimsOf, hsd]
    rw [foldl_dims_cat, ← hds]
    simp only [catDims, List.flatMap_cons]
  refine ⟨p, hp, ?_, hpe, ?_⟩
  · cases hsd : s.dims with
    | none => exact wf_cat_none p _ hi' (by rw [hd, hsd]) h.wf hid
    | some d =>
      refine wf_cat p _ hi' ?_ h.wf hid
      rw [hd, hsd]
      exact congrArg some (hdims d hsd)
  · apply rawList_cat p _ hi' ?_ h.wf h.nominal hid
    cases hsd : s.dims with
    | none =>
      apply effGroups_cat_none p _ hi' (by rw [hd, hsd])
      intro o ho
      rcases List.mem_cons.mp ho with rfl | hm
      · exact hsd
      · rcases h.df07 with h7 | h7
        · exact absurd hsd h7
        · exact h7 o hm
    | some d =>
      refine effGroups_cat p _ hi' ?_ h.wf h.nominal hid
      rw [hd, hsd]
      exact congrArg some (hdims d hsd)

/-- **product.**  For sweeps with pairwise disjoint keys (`ProductHyps`: well formed, at least one dimension each, names of
    dimensions / constants / deriver outputs pairwise disjoint, derivers and exclude reading only their own operand's names,
    and the receiver having `dims` unless no operand has — the hypothesis that excludes the known finding DF-07),
    `s.product(*others)` does not raise and `list()` of the result is — as dictionaries, in order — the Cartesian product of
    the operands' own combination lists, with the constants, derivers and exclude of **every** operand applied; `len` of the
    result is the number of these combinations. n-ary. -/
theorem C17_product (s : Sweep V) (others : List (Sweep V)) (h : ProductHyps s others) :
    ∃ p L, product s others = .ok p ∧ generate p = .ok L ∧ len p = .ok L.length ∧
      L.map lookup = (prodAll ((s :: others).map specList)).map lookup := by
  obtain ⟨p, hp, hwfp, hpe, hraw⟩ := C17_product_enum s others h
  have hgen := C17_list p hwfp
  refine ⟨p, specList p, hp, hgen, C17_len p _ hgen, ?_⟩
  have hpart := C17_product_partial s others p hp h.hne h.hc h.hd h.disjoint h.localFns ((s :: others).map rawList)
    (by simp)
    (by
      intro ob hob c hc k hk
      obtain ⟨h1, h2⟩ := mem_zip_map_self hob
      rw [h2] at hc
      have := keys_rawList (h.wf _ h1) (h.nominal _ h1) c hc k hk
      simp [ownKeys, this])
  rw [specList_eq_raw, hpe, hraw]
  simp only [Bool.false_eq_true, if_false]
  rw [hpart, map_zip_map_self]
  congr 2
  apply List.map_congr_left
  intro o ho
  rw [specList_eq_raw, h.nonempty o ho]
  simp

/-- **len of a product** = the product of the operands' numbers of combinations. -/
theorem C17_product_len (s : Sweep V) (others : List (Sweep V)) (h : ProductHyps s others) :
    ∃ p, product s others = .ok p ∧
      len p = .ok (((s :: others).map (fun o => (specList o).length)).foldr (· * ·) 1) := by
  obtain ⟨p, L, hp, _, hlen, hL⟩ := C17_product s others h
  refine ⟨p, hp, ?_⟩
  have : L.length = (prodAll ((s :: others).map specList)).length := by
    have := congrArg List.length hL
    simpa using this
  rw [hlen, this, length_prodAll, List.map_map]
  rfl

section Filtered
variable [DecidableEq V]

/-- **filtered_sweep, sweeps with derivers — read-back.**  For a non-empty list `ks` of distinct names,
    `s.filtered_sweep(ks).list()` is exactly the list of the *distinct* projections `{k: combo[k] for k in ks}` of the
    combinations of `s`, each kept at its first occurrence (`distinctFold`, characterised by `distinctFold_nodup`,
    `mem_distinctFold` and `distinctFold_cons`), and `len` of the filtered sweep is their number.  No well-formedness of `s`
    is needed: whenever `filtered_sweep` returns, `list()` of `s` and all projections were computed without raising.
    (For `ks = []` the code returns `Sweep({}, dims=[()])`, which yields nothing although the empty projection exists.) -/
theorem C17_filtered_derivers (s f : Sweep V) (ks : List Key) (hd : s.derivers.isSome = true) (hne : ks ≠ [])
    (hn : ks.Nodup) (h : filtered s ks = .ok f) :
    ∃ combos ps, generate s = .ok combos ∧ projectAll ks combos = .ok ps ∧
      generate f = .ok (distinctFold ps) ∧ len f = .ok (distinctFold ps).length := by
  unfold filtered at h
  simp only [hd, if_true] at h
  split at h
  · cases h
  · next combos hc =>
    split at h
    · cases h
    · next ps hps =>
      simp only [Except.ok.injEq] at h
      have hspec := projectAll_spec hn hps
      have hinj : ∀ x ∈ ps, ∀ y ∈ ps, vals x = vals y → x = y := by
        intro x hx y hy e
        rw [(hspec x hx).2, (hspec y hy).2, e]
      have hmap := distinctFold_map vals ps hinj
      have hback : ((distinctFold ps).map vals).map (fun r => ks.zip r) = distinctFold ps := by
        rw [List.map_map]
        conv => rhs; rw [← List.map_id (distinctFold ps)]
        apply List.map_congr_left
        intro p hp
        exact ((hspec p ((mem_distinctFold ps p).mp hp)).2).symm
      have hgen : generate f = .ok (distinctFold ps) := by
        cases hR : distinctFold (ps.map vals) with
        | nil =>
          rw [hR] at h
          have hnil : distinctFold ps = [] := by
            rw [hmap] at hR
            exact List.map_eq_nil_iff.mp hR
          rw [hnil, ← h]
          simp [generate, columnsOf]
        | cons r0 R =>
          have hlen : ∀ r ∈ r0 :: R, r.length = ks.length := by
            intro r hr
            rw [← hR, mem_distinctFold] at hr
            obtain ⟨p, hp, rfl⟩ := List.mem_map.mp hr
            have := (hspec p hp).1
            simp only [vals, keys] at this ⊢
            rw [List.length_map, ← List.length_map (f := Prod.fst), this]
          obtain ⟨C, hC1, hC2, hC3, hC4, hC5⟩ := columnsOf_spec ks r0 R hn hne hlen
          rw [hR, hC1] at h
          have := generate_columns f ks C (r0 :: R) (by rw [← h]) (by rw [← h]) (by rw [← h]) (by rw [← h]) (by rw [← h])
            hn hC2 hC3 _ hC4 hC5
          rw [this, ← hR, hmap, hback]
      exact ⟨combos, ps, hc, hps, hgen, C17_len f _ hgen⟩

/-- **list() of a sweep without constants, derivers and exclude** (well formed, at least one dimension): the raw
    combinations `rawList` — the Cartesian product of the zipped groups, merged. -/
theorem C17_generate_plain (s : Sweep V) (hwf : wf s = true) (hd : s.derivers = none) (hc : s.constants = none)
    (hx : s.exclude = none) (hne : s.items.isEmpty = false) : generate s = .ok (rawList s) := by
  rw [C17_list s hwf, specList_eq_raw, hne, finish_plain s hd hc hx]
  simp

/-- **filtered_sweep, sweeps without derivers (and, as the property says, without constants or exclude).**  For a
    well-formed sweep `s` and keys `ks` that name at least one dimension, `s.filtered_sweep(ks).list()` is exactly the list of
    the *distinct* restrictions of the combinations of `s` to the names `ks` (`restrict`, characterised by `lookup_restrict`:
    the projection onto `ks` as a mapping), each kept at its first occurrence, and `len` is their number — provided `s` has no
    `dims`, or the rebuilt sweep enumerates its groups as written (`hnom`; this fails only when the rebuilt `dims` is a
    plain list of all names in another order than the items, see `C17_filtered_order_witness`, where the same projections
    come in item order).  This is the branch where the fixed code (DF-09, DF-C17-01) de-duplicates the rows of every remaining zipped
    group instead of enumerating the sweep; the proof shows that de-duplicating group by group is de-duplicating the
    product (`distinctFold_cart`). -/
theorem C17_filtered_plain (s f : Sweep V) (ks : List Key) (hwf : wf s = true) (hd : s.derivers = none)
    (hc : s.constants = none) (hx : s.exclude = none) (hks : ∃ k ∈ ks, k ∈ keys s.items)
    (hnom : s.dims = none ∨ effGroups f = (f.dims.getD []).map Group.keys) (h : filtered s ks = .ok f) :
    ∃ combos, generate s = .ok combos ∧
      generate f = .ok (distinctFold (combos.map (restrict ks))) ∧
      len f = .ok (distinctFold (combos.map (restrict ks))).length := by
  obtain ⟨k0, hk0, hk0'⟩ := hks
  have hne : s.items.isEmpty = false := by
    cases hs : s.items with
    | nil => simp [hs, keys] at hk0'
    | cons _ _ => rfl
  have hgs := C17_generate_plain s hwf hd hc hx hne
  have hlen := C17_len s _ hgs
  have hany : (ks.any fun k => (keys s.items).contains k) = true := by
    simp only [List.any_eq_true, List.contains_iff_mem]
    exact ⟨k0, hk0, hk0'⟩
  refine ⟨rawList s, hgs, ?_⟩
  have key : generate f = .ok (distinctFold ((rawList s).map (restrict ks))) := by
    unfold filtered at h
    simp only [hd, Option.isSome_none, Bool.false_eq_true, if_false, hany, Bool.not_true, hx, Option.isNone_none, if_true, hlen] at h
    cases hn : (rawList s).length with
    | zero =>
      rw [hn] at h
      simp only [Except.ok.injEq] at h
      have : rawList s = [] := List.eq_nil_of_length_eq_zero hn
      rw [this, ← h]
      simp [generate, distinctFold]
    | succ n =>
      rw [hn] at h
      simp only [Except.ok.injEq] at h
      have hitems : f.items = (filteredDims s ks).foldl (dedupGroup s.items) s.items := by rw [← h]
      have hdims : f.dims = some (filteredDims s ks) := by rw [← h]
      obtain ⟨hwff, hkeys⟩ := wf_filtered s f ks hwf hitems hdims
      have hnef : f.items.isEmpty = false := by
        cases hf : f.items with
        | nil =>
          rw [hf] at hkeys
          cases hs : s.items with
          | nil => rw [hs] at hne; simp at hne
          | cons _ _ => rw [hs] at hkeys; simp [keys] at hkeys
        | cons _ _ => rfl
      rw [C17_generate_plain f hwff (by rw [← h]) (by rw [← h]; exact hc) (by rw [← h]) hnef]
      have hnom' : effGroups f = (filteredDims s ks).map Group.keys := by
        rcases hnom with hs | hn'
        · have := nominal_filtered_of_dims_none s f ks hs hkeys hdims
          rwa [hdims, Option.getD_some] at this
        · rwa [hdims, Option.getD_some] at hn'
      rw [rawList_filtered s f ks hwf hitems hnom' (by intro e; rw [e] at hn; simp at hn)]
  exact ⟨key, C17_len f _ key⟩

/-- **filtered_sweep, sweeps without derivers — order witness.**  In the branch without derivers the rebuilt sweep lists
    the distinct projections, but not always in first-occurrence order: a `dims` made of permuted 1-tuples is rebuilt as
    plain names (`sweep.py:200-201`), which `generate` then enumerates in item order (`sweep.py:120`).  Here the sweep
    enumerates `b` slowest, its filtered sweep `a` slowest — the same four projections.  (The property statement does not
    fix an order for `filtered_sweep`; the harness compares in order exactly when `dims` is omitted or in item order.)

    `C17_filtered_plain` therefore carries the hypothesis that the rebuilt sweep enumerates its groups as written. -/
theorem C17_filtered_order_witness :
    let s : Sweep Nat := { items := [("a", [1, 2]), ("b", [3, 4])], dims := some [.tup ["b"], .tup ["a"]] }
    (generate s).toOption = some [[("b", 3), ("a", 1)], [("b", 3), ("a", 2)], [("b", 4), ("a", 1)], [("b", 4), ("a", 2)]] ∧
    (filtered s ["a", "b"]).toOption.bind (fun f => (generate f).toOption) =
      some [[("a", 1), ("b", 3)], [("a", 1), ("b", 4)], [("a", 2), ("b", 3)], [("a", 2), ("b", 4)]] := by decide

end Filtered

/-! ### `+` is associative on the combination list; `len` on well-formed and on ill-formed sweeps -/

/-- **`+` / MultiSweep associativity.**  However `Sweep`s and (nested) `MultiSweep`s are bracketed, `(x + y) + z` and
    `x + (y + z)` yield the same combinations in the same order (and raise together), and have the same `len`
    whenever the enumeration does not raise.  (About one evaluation of each expression on fresh operands: the Python
    `MultiSweep.__add__` extends the receiver in place, see the report.) -/
theorem C17_add_assoc (x y z : SW V) :
    ((x.add y).add z).generate = (x.add (y.add z)).generate ∧
    ∀ l, ((x.add y).add z).generate = .ok l → ((x.add y).add z).len = .ok l.length ∧ (x.add (y.add z)).len = .ok l.length := by
  have e : ((x.add y).add z).generate = (x.add (y.add z)).generate := by
    rw [C17_add, C17_add, C17_add, C17_add, seqApp_assoc]
  refine ⟨e, fun l hl => ⟨C17_len_multi _ l hl, C17_len_multi _ l (e ▸ hl)⟩⟩

/-- **len of a well-formed sweep** is the number of documented combinations (no `generate` hypothesis). -/
theorem C17_len_wf (s : Sweep V) (h : wf s = true) : len s = .ok (specList s).length :=
  C17_len s _ (C17_list s h)

/-- **Zipped groups of unequal length**: `list()` raises `ValueError` (`_check_dim_lengths`) while `len()` — which looks
    only at the first name of a group — returns a number.  `len(sweep) == len(sweep.list())` is therefore a statement about
    the sweeps whose `list()` exists (`C17_len`); for the others `len` does not raise although `list()` does. -/
theorem C17_len_unequal_witness :
    (match generate ({ items := [("a", [1, 2]), ("b", [3])], dims := some [.tup ["a", "b"]] } : Sweep Nat) with
      | .error .value => true | _ => false) = true ∧
    (len ({ items := [("a", [1, 2]), ("b", [3])], dims := some [.tup ["a", "b"]] } : Sweep Nat)).toOption = some 2 := by decide

section CountPipe
variable [DecidableEq V]

/-- **count_sweep with the pipeline in the model.**  `countSweepPipe` takes the dependencies of the requested output and their
    root arguments from the pipeline model of C02 (`PF.Pipe.funcDeps`, `PF.Pipe.rootArgs`, the definitions `Driver/C02.lean`
    compares with `Pipeline.func_dependencies` / `root_args`); when it returns, the result has one table per dependency, in
    that order, and each table maps a root-argument tuple to the number of combinations that have it. -/
theorem C17_count_pipe (fs : List PF.Pipe.Func) (o : String) (combos : List (Dict V))
    (r : List (String × List (List V × Nat))) (h : countSweepPipe fs o combos = some (.ok r)) :
    ∃ deps, countDeps fs o = some deps ∧ r.map Prod.fst = deps.map Prod.fst ∧
      ∀ d c, (d, c) ∈ deps.zip r →
        (∀ t, cntGet c.2 t = (combos.filter (hasTuple d.2 t)).length) ∧ (c.2.map Prod.fst).Nodup ∧ ∀ p ∈ c.2, p.2 > 0 := by
  unfold countSweepPipe at h
  cases hd : countDeps fs o with
  | none => simp [hd] at h
  | some deps =>
    simp only [hd, Option.map_some, Option.some.injEq] at h
    exact ⟨deps, rfl, C17_count deps combos r h⟩

end CountPipe

/-! ### Non-vacuity and witnesses -/

section Examples

def pA : Sweep Nat := { items := [("a", [1, 2])], dims := some [.str "a"], constants := some [("k", 7)] }
def pB : Sweep Nat := { items := [("b", [1, 2]), ("c", [3, 4])], dims := some [.tup ["b", "c"]],
                        exclude := some (fun c => lookup c "b" == some 1) }
def pC : Sweep Nat := { items := [("d", [5, 6]), ("e", [0])],
                        derivers := some [("t", fun c => (lookup c "d").getD 0 * 10)] }

/-- non-vacuity of `ProductHyps` (three operands: a constant, a zipped group with an exclude, a deriver) -/
example : ProductHyps pA [pB, pC] where
  wf := by decide
  nonempty := by decide
  nominal := by
    intro o ho
    simp only [List.mem_cons, List.mem_nil_iff, or_false] at ho
    rcases ho with rfl | rfl | rfl <;> (unfold Nominal; decide)
  df07 := Or.inl (by simp [pA])
  constsDict := by decide
  deriversDict := by
    intro o ho
    simp only [List.mem_cons, List.mem_nil_iff, or_false] at ho
    rcases ho with rfl | rfl | rfl <;> simp [pA, pB, pC, keys]
  disjoint := by decide
  localFns := by
    intro o ho
    simp only [List.mem_cons, List.mem_nil_iff, or_false] at ho
    rcases ho with rfl | rfl | rfl
    · exact ⟨by simp [pA], fun _ _ _ => rfl⟩
    · refine ⟨by simp [pB], ?_⟩
      intro c c' hcc
      simp only [pB, excluded, hcc "b" (by simp [ownKeys, pB, keys])]
    · refine ⟨?_, fun _ _ _ => rfl⟩
      intro kf hkf c c' hcc
      simp only [pC, Option.getD_some, List.mem_singleton] at hkf
      subst hkf
      simp only [hcc "d" (by simp [ownKeys, pC, keys])]

example : ((product pA [pB, pC]).toOption.bind (fun p => (generate p).toOption)).map List.length = some 4 := by decide

/-- Without `Nominal` the *order* of the product differs: `dims = ["b", "a"]` alone is enumerated in item order (`a`
    slowest), inside a product with a zipped operand it is enumerated as written (`b` slowest).  Same combinations. -/
theorem C17_product_order_witness :
    let s : Sweep Nat := { items := [("a", [1, 2]), ("b", [3, 4])], dims := some [.str "b", .str "a"] }
    let o : Sweep Nat := { items := [("c", [5]), ("d", [6])], dims := some [.tup ["c", "d"]] }
    (generate s).toOption = some [[("a", 1), ("b", 3)], [("a", 1), ("b", 4)], [("a", 2), ("b", 3)], [("a", 2), ("b", 4)]] ∧
    ((product s [o]).toOption.bind (fun p => (generate p).toOption)) =
      some [[("b", 3), ("a", 1), ("c", 5), ("d", 6)], [("b", 3), ("a", 2), ("c", 5), ("d", 6)],
            [("b", 4), ("a", 1), ("c", 5), ("d", 6)], [("b", 4), ("a", 2), ("c", 5), ("d", 6)]] := by decide

/-- non-vacuity of `C17_filtered_derivers`: duplicates (`d = 10` twice) are removed, first occurrences kept in order -/
example : (filtered ({ items := [("a", [1, 2, 1])], derivers := some [("d", fun c => (lookup c "a").getD 0 * 10)] } : Sweep Nat)
    ["d", "a"]).toOption.bind (fun f => (generate f).toOption) = some [[("d", 10), ("a", 1)], [("d", 20), ("a", 2)]] := by decide

example : wf exZip = true ∧ (len exZip).toOption = some (specList exZip).length := by decide

def exPipe : List PF.Pipe.Func :=
  [{ name := "c", params := [("a", "a"), ("b", "b")], outputs := ["c"], defaults := [], bound := [] },
   { name := "d", params := [("b", "b"), ("c", "c"), ("x", "x")], outputs := ["d"], defaults := [], bound := [] },
   { name := "e", params := [("c", "c"), ("d", "d"), ("x", "x")], outputs := ["e"], defaults := [], bound := [] }]

/-- non-vacuity of `C17_count_pipe`: the dependencies of `e` are `c` (root arguments `a, b`) and `d` (`a, b, x`) -/
example : countDeps exPipe "e" = some [("c", ["a", "b"]), ("d", ["a", "b", "x"])] ∨
    countDeps exPipe "e" = some [("d", ["a", "b", "x"]), ("c", ["a", "b"])] := by decide

def exPlain : Sweep Nat := { items := [("a", [1, 1, 2]), ("b", [3, 3, 4]), ("c", [0, 1])], dims := some [.tup ["a", "b"], .str "c"] }

/-- non-vacuity of `C17_filtered_plain`: a zipped group with a repeated row, one dimension filtered out -/
example : wf exPlain = true ∧ (∃ k ∈ ["b", "a"], k ∈ keys exPlain.items) ∧
    (match filtered exPlain ["b", "a"] with
     | .ok f => decide (effGroups f = (f.dims.getD []).map Group.keys) && decide ((generate f).toOption =
         some [[("a", 1), ("b", 3)], [("a", 2), ("b", 4)]])
     | .error _ => false) = true := by decide

/-- non-vacuity of `C17_generate_plain` -/
example : wf exZip = true ∧ exZip.derivers.isNone ∧ exZip.constants.isNone ∧ exZip.exclude.isNone ∧ exZip.items.isEmpty = false ∧
    (generate exZip).toOption = some (rawList exZip) := by decide

/-- non-vacuity of `C17_count_pipe`: the whole `count_sweep` on two combinations -/
example : (match countSweepPipe exPipe "d" ([[("a", 1), ("b", 2), ("x", 0)], [("a", 1), ("b", 2), ("x", 1)]] : List (Dict Nat)) with
    | some (.ok r) => r | _ => []) = [("c", [([1, 2], 2)])] := by decide

/-- non-vacuity of `C17_add_assoc` (the `len` part): three one-combination sweeps, bracketed both ways -/
example : (((SW.single exLeft).add (.single exLeft)).add (.multi [.single exLeft])).generate.toOption.map List.length = some 6 ∧
    ((SW.single exLeft).add ((SW.single exLeft).add (.multi [.single exLeft]))).len.toOption = some 6 := by decide

end Examples

end PF.C17
