import PfModel.Model.TypingPipe
/-!
Model of *incremental* construction: `Pipeline.__init__` (`pipefunc/_pipeline/_base.py:160-195`) calls `self.add(f)` for every
function in list order (`_base.py:191-192`); every `add` (`_base.py:236-265`) appends the function and then runs
`self._validate()` (`_base.py:263`, body `_base.py:1147-1170`), which regenerates the auto-generated MapSpecs
(`_validate_mapspec` -> `_autogen_mapspec_axes`) and then, if `validate_type_annotations`, runs
`validate_consistent_type_annotations(self.graph)` over ALL functions added so far.

A *stage* is the description (`List Func`, `Model/TypingPipe.lean`) of the functions present after one `add`, with the MapSpecs
they have when that `_validate` runs.  Stage descriptions of the same function may differ between stages: the generated MapSpec
of an already-added function depends on the consumers and producers known so far.
-/
namespace PF.Typing

/-- the index of the first `add` whose `_validate` raises `TypeError` (`_base.py:263` inside the loop `_base.py:191-192`):
    the first stage `s` with `constructP true s = .typeError` -/
def firstBad : List (List Func) → Option Nat
  | [] => none
  | s :: rest =>
    match constructP true s with
    | .typeError => some 0
    | .ok => (firstBad rest).map (· + 1)

/-- `Pipeline(functions, validate_type_annotations=validate)` as the sequence of its `add` calls (`_base.py:191-192`):
    `TypeError` iff validation is on and some stage is rejected (the exception of the first such `add` propagates) -/
def constructInc (validate : Bool) (stages : List (List Func)) : Outcome :=
  if validate then (match firstBad stages with | none => .ok | some _ => .typeError) else .ok

/-- the nonempty prefixes `fs.take 1, …, fs.take fs.length`: the stages of a list whose descriptions are *stable* (nothing about an
    already-added function changes when a later one is added; in particular no MapSpec is regenerated) -/
def stagesOf (fs : List Func) : List (List Func) := (List.range fs.length).map (fun k => fs.take (k + 1))

/-! ### the regenerated-MapSpec example: `f0: x[i] -> y0[i]` returning `int`, `f1(y0: str) -> y1` without a MapSpec,
`f2: y1[j] -> y2[j]`.  After `add(f1)` the edge `y0` is a reduction between two functions one of which has no MapSpec: it is
compared (`Array[int]` against `str`) and rejected.  Once `f2` is known, `f1` gets the generated MapSpec `... -> y1[j]`
and the edge `y0` is exempt (`_mapspec_is_generated`, `_validation.py:112-115`). -/

def incF0 : Func :=
  ⟨["y0"], false, ["x"], [], [], [("x", .ty (.base .int))], .ty (.base .int), .plain,
   some ⟨[("x", [some "i"])], [("y0", ["i"])], false⟩⟩
def incF1 (m : Option MSpec) : Func :=
  ⟨["y1"], false, ["y0"], [], [], [("y0", .ty (.base .str))], .ty (.base .int), .plain, m⟩
def incF2 : Func :=
  ⟨["y2"], false, ["y1"], [], [], [("y1", .ty (.base .int))], .ty (.base .int), .plain,
   some ⟨[("y1", [some "j"])], [("y2", ["j"])], false⟩⟩
/-- the MapSpec `_autogen_mapspec_axes` gives `f1` once `f2` (which maps over `y1[j]`) is in the pipeline -/
def incGen : MSpec := ⟨[], [("y1", ["j"])], true⟩
/-- list order `[f0, f1, f2]` -/
def incStages : List (List Func) := [[incF0], [incF0, incF1 none], [incF0, incF1 (some incGen), incF2]]
/-- list order `[f2, f0, f1]`: `f1` is added last and has its generated MapSpec from its first stage on -/
def incStagesShuffled : List (List Func) := [[incF2], [incF2, incF0], [incF2, incF0, incF1 (some incGen)]]

end PF.Typing
