"""C11, round 3 - "S is computable from I" as the model decides it over the FULL pipeline (`PF.Sub.computableB`, proved equivalent to
`PF.Sub.Computable` in `C11_computable_decided`; `Computable -> accepted` is `C11_computable_accepted`, the converse with exactly the
lacking names `C11_not_computable_rejected`; `map` refusing exactly the over-provided names `C11_map_over_provided`).

Driven here: for every generated case with both I and S the driver entries `pipe.computable` (call DAG view, `funcNode`) and
`map.computable` (map view, `mfuncNode`, plus `extras` = the over-provided names of the partial pipeline) are compared with
 * the harness's independent Python reference (`c11.ref_needed`): computable, lacking names, needed functions, over-provided names;
 * the implementation: the names its rejection lists as missing are EXACTLY the lacking names; an over-provided `map` request is
   either answered with the right values (judged in c11.py) or refused with a ValueError naming EVERY over-provided name before any
   user function ran.
`c11._run` appends the requests of `requests(case)` to a case's request list and hands the responses to `judge` (3 lines there)."""
from __future__ import annotations

import re

import pfimport  # noqa: F401

_ANY = {"s": "any"}


def applies(case):
    return case.get("I") is not None and case.get("S") is not None and case.get("kind") != "bad:unknown-input"


def _mfuncs(case):
    if case["stream"] == "pipe":
        return [{"name": f["name"], "params": f["params"], "outputs": f["outputs"], "mapspec": None, "ret": None, "internal": None,
                 "defaults": f.get("defaults", []), "bound": f.get("bound", [])} for f in case["funcs"]]
    import mapgen
    return mapgen.model_request(case["desc"])["funcs"]


def requests(case, reqs=()):
    """driver requests for one case (names only: the decision never looks at values); `reqs`: the case's own requests - its `map.sub`
    request is re-sent as `map.lenient` (the answering behaviour, `PF.Sub.mapSubLenient`) when the reference finds the request over-provided"""
    I, S = list(case["I"]), list(case["S"])
    out = []
    if case["stream"] == "pipe":
        out.append({"m": "pipe.computable", "a": {"funcs": case["funcs"], "inputs": I, "outputs": S}})
    out.append({"m": "map.computable", "a": {"funcs": _mfuncs(case), "inputs": [[k, _ANY] for k in I], "outputs": S}})
    from props import c11
    funcs = case["funcs"] if case["stream"] == "pipe" else case["desc"]["funcs"]
    if all(o in {q for f in funcs for q in f["outputs"]} for o in S):
        ref = c11.ref_needed(funcs, S, set(I))
        if not ref["missing"] and (ref["surplus"] or ref["clash"]):
            for r in reqs:
                if r["m"] == "map.sub":
                    out.append({"m": "map.lenient", "a": r["a"]})
                    break
    if case["stream"] == "map" and id(case["desc"]) not in _FULL:
        # the model's FULL run of this map pipeline, once per pipeline: the global half of the value clause (the partial run returns the full
        # run's values), proved only locally (`C11_map_values_local_partial`), is checked on the MODEL for every generated case
        import mapgen
        a = dict(mapgen.model_request(case["desc"]))
        a.update({"outputs": None, "auto": False})
        _FULL[id(case["desc"])] = None
        out.append({"m": "map.sub", "a": a})
    return out


_FULL = {}          # id(desc) -> canonical outputs of the model's full run (None: refused / pending); cleared by c11._run through `reset()`


def reset():
    _FULL.clear()


def named_missing(msg):
    """the names a `subpipeline` rejection lists after `missing:` (a set repr), or None when the message has another shape"""
    m = re.search(r"\(missing: `\{(.*?)\}`\)", msg or "", flags=re.S)
    if not m:
        return None
    return sorted(set(re.findall(r"'([^']*)'", m.group(1))))


def mentions(msg, name):
    return re.search(r"(?<![A-Za-z0-9_])" + re.escape(name) + r"(?![A-Za-z0-9_])", msg or "") is not None


def judge(ctx, case, ref, impl, resps, own=()):
    """`resps`: the responses to `requests(case)`, in order; `own`: the responses to the case's own requests.  Reports through ctx."""
    if ref is None:
        return
    I = list(case["I"])
    funcs = case["funcs"] if case["stream"] == "pipe" else case["desc"]["funcs"]
    known = {o for f in funcs for o in f["outputs"]}
    want_comp = not ref["missing"] and all(o in known for o in case["S"])
    want_extras = sorted(set(ref["surplus"]) | set(ref["clash"]))
    lenient = None
    if resps and "legacy" in resps[-1]["r"]:            # the model's full run (a `map.sub` response), first case of a map pipeline
        from props import c11
        now = resps[-1]["r"]["now"]
        resps = resps[:-1]
        _FULL[id(case["desc"])] = None if "err" in now else {k: c11.canon(v) for k, v in now["outputs"]}
    if resps and "now" in resps[-1]["r"]:
        lenient, resps = resps[-1]["r"], resps[:-1]
    for resp in resps:
        r = resp["r"]
        view = "map" if "extras" in r else "pipe"
        ctx.count(f"comp:{view}:{'computable' if r['computable'] else 'not-computable'}")
        if r["computable"] != want_comp or sorted(r["lacking"]) != ref["missing"] or sorted(r["needed"]) != ref["needed"]:
            ctx.violation(case, f"the model's decision of `S computable from I` ({view} view) differs from the reference", found_input=False,
                          item="correspondence:computable-decided", impl=ref, model=r)
            return
        if view == "map" and r["computable"]:
            ex_i = sorted(x for x in r["extras"] if x in I)
            if ex_i != want_extras:
                ctx.violation(case, "the model's over-provided names differ from the reference", found_input=False,
                              item="correspondence:over-provided-exact", impl={"surplus": ref["surplus"], "clash": ref["clash"]}, model=r)
                return
    r = resps[-1]["r"]          # the map view (always present)
    if case["stream"] == "map" and r["computable"]:
        # goal 2: a provided INTERMEDIATE that a needed function consumes through its MapSpec (an array indexed per element)
        thru = [k for k in I if k in known and any(f["name"] in r["needed"] and f.get("mapspec") and
                                                    any(a[0] == k for a in f["mapspec"]["inputs"]) for f in funcs)]
        if thru:
            ctx.count("comp:provided-array-through-mapspec")
    _judge_model_full(ctx, case, ref, own)
    # --- the implementation's rejection names EXACTLY what is lacking
    if not r["computable"] and not r["unknown"]:
        for key, what in (("sub", "subpipeline"), ("map", "map(output_names=S)")):
            ob = impl.get(key)
            if not ob or "err" not in ob or ob["err"] != "ValueError":
                continue        # accepted / other exception: c11.py reports it as a property violation
            named = named_missing(ob.get("msg", ""))
            if named is None:
                ctx.count(f"comp:reject-message-unparsed:{key}")
                continue
            ctx.count(f"comp:reject-names-compared:{key}")
            if [x for x in r["lacking"] if x not in named]:
                ctx.violation(case, f"{what}: the rejection lists {named} as missing, lacking are {sorted(r['lacking'])}", impl=ob, model=r)
                return
            if sorted(named) != sorted(r["lacking"]):
                ctx.violation(case, f"{what}: the rejection lists {named} as missing, exactly {sorted(r['lacking'])} are lacking", found_input=False,
                              item="correspondence:missing-exact", impl=ob, model=r)
                return
    # --- an over-provided map request: answered, or refused naming every over-provided name, before any user function
    if r["computable"]:
        ex_i = sorted(x for x in r["extras"] if x in I)
        ob = impl.get("map")
        if ex_i and ob:
            if "err" in ob:
                ctx.count("comp:over-provided:refused")
                named = [x for x in ex_i if mentions(ob.get("msg", ""), x)]
                if ob["err"] == "ValueError" and named and len(named) < len(ex_i):
                    # naming SOME offending name is what the decision of round 2 demands (judged in c11.py); the code - and the model,
                    # `C11_map_over_provided` + `extras` - name every one
                    ctx.violation(case, f"map(output_names=S): over-provided request refused naming {named}, the over-provided names are {ex_i}",
                                  found_input=False, item="correspondence:over-provided-exact", impl=ob, model=r)
                    return
                if not named:
                    ctx.count("comp:over-provided:refused-otherwise")      # judged in c11.py (a map pipeline may be refused by the run itself)
                if ob.get("calls"):
                    ctx.violation(case, "map(output_names=S): user functions ran before the refusal of an over-provided request", impl=ob, model=r)
                    return
            else:
                ctx.count("comp:over-provided:answered")
                _judge_answered(ctx, case, ob, lenient, I)


def _judge_answered(ctx, case, ob, lenient, I):
    """the implementation ANSWERED an over-provided map request: besides the property's value clause (c11.py) its outputs for the names of S
    that are not provided and its calls must be those of the answering model (`mapSubLenient`)"""
    if lenient is None:
        return
    from props import c11
    now = lenient["now"]
    if "err" in now:
        ctx.violation(case, "map(output_names=S) answers an over-provided request the answering model refuses", found_input=False,
                      item="correspondence:over-provided-lenient", impl=ob, model=lenient)
        return
    mout = {k: c11.canon(v) for k, v in now["outputs"]}
    mcalls = sorted(([n, [[k, c11.canon(v)] for k, v in sorted(kw, key=lambda kv: kv[0])]] for n, kw in now["calls"]), key=repr)
    bad = [o for o in case["S"] if o not in I and ob["outputs"].get(o) != mout.get(o)]
    if bad or ob.get("calls") != mcalls:
        ctx.violation(case, f"map(output_names=S) answers an over-provided request differently from the answering model (outputs {bad}, calls)",
                      found_input=False, item="correspondence:over-provided-lenient", impl=ob, model={"outputs": mout, "calls": mcalls})


def _judge_model_full(ctx, case, ref, own):
    """model-level instance of the global value clause: for a computable, not over-provided request of the map stream whose provided values
    are the full run's, the MODEL's partial run returns for every o in S what the MODEL's full run returns"""
    if case["stream"] != "map" or ref["missing"] or ref["surplus"] or ref["clash"] or str(case.get("kind", "")).startswith("bad"):
        return
    full = _FULL.get(id(case["desc"]))
    part = next((x["r"]["now"] for x in own if isinstance(x.get("r"), dict) and "now" in x["r"] and "legacy" in x["r"]), None)
    if full is None or part is None or "err" in part:
        ctx.count("comp:model-full:not-compared")
        return
    from props import c11
    pout = {k: c11.canon(v) for k, v in part["outputs"]}
    bad = [o for o in case["S"] if pout.get(o) != full.get(o)]
    ctx.count("comp:model-full:compared")
    if bad:
        ctx.violation(case, f"MODEL: the partial run's values of {bad} differ from the model's full run (the global value clause fails on the model)",
                      found_input=False, item="correspondence:model-partial-vs-full", impl={o: pout.get(o) for o in bad}, model={o: full.get(o) for o in bad})
