import PfModel.Model.HashableSort
import PfModel.Lemmas.Hashable
/-! Lemmas about the stable sort `sortS` / `sortW` (`Model/HashableSort.lean`). -/
namespace PF.Hashable

theorem cmpNL_eq : ∀ s t, cmpNL s t = .eq → s = t
  | [], [], _ => rfl
  | [], _ :: _, h => by simp [cmpNL] at h
  | _ :: _, [], h => by simp [cmpNL] at h
  | a :: as, b :: bs, h => by
    simp only [cmpNL] at h
    split at h
    · cases h
    · split at h
      · cases h
      · have : a = b := by omega
        rw [this, cmpNL_eq as bs h]

theorem cmpAtom_eq (a b : Atom) (h : cmpAtom a b = .eq) : a = b := by
  cases a <;> cases b <;> simp only [cmpAtom] at h <;> try (cases h; done)
  · rename_i r h1 r' h2
    split at h; · cases h
    split at h; · cases h
    split at h; · cases h
    split at h; · cases h
    have e1 : r = r' := by omega
    have e2 : h1 = h2 := by omega
    rw [e1, e2]
  · rw [cmpNL_eq _ _ h]
  · rw [cmpNL_eq _ _ h]

/-- a tie under `<` is an equality of model values (numbers are identified by value in the model) -/
theorem cmp_eq : ∀ x y : PV, cmp x y = .eq → x = y := by
  intro x
  refine PV.rec (motive_1 := fun x => ∀ y, cmp x y = .eq → x = y)
    (motive_2 := fun xs => ∀ ys, cmpL xs ys = .eq → xs = ys) ?_ ?_ ?_ ?_ x
  · intro a y h
    cases y with
    | atom b => simp only [cmp] at h; rw [cmpAtom_eq a b h]
    | node k ys => cases k <;> simp [cmp] at h
  · intro k xs ih y h
    cases y with
    | atom b => cases k <;> simp [cmp] at h
    | node k' ys =>
      cases k <;> cases k' <;> simp only [cmp] at h <;> try (cases h; done)
      rw [ih ys h]
  · intro ys h; cases ys with
    | nil => rfl
    | cons y ys => simp [cmpL] at h
  · intro x xs ihx ihxs ys h
    cases ys with
    | nil => simp [cmpL] at h
    | cons y ys =>
      simp only [cmpL] at h
      by_cases e : x = y
      · subst e; simp only [if_true] at h; rw [ihxs ys h]
      · simp only [if_neg e] at h; exact absurd (ihx y h) e

theorem weakB_symm (x y : PV) : weakB x y = true → weakB y x = true := by
  unfold weakB
  rw [cmp_swap x y]
  cases cmp x y <;> simp [Cmp.swap]

theorem strict_weak {x y : PV} (h : strictB x y = true) : weakB x y = true := by
  unfold strictB at h; unfold weakB
  cases hc : cmp x y <;> simp [hc] at h ⊢

/-- among totally preordered keys `<` is negatively transitive -/
theorem cmp_negtrans {x y z : PV} (hxy : weakB x y = true) (h : cmp x z = .lt) : cmp x y = .lt ∨ cmp y z = .lt := by
  unfold weakB at hxy
  cases hc : cmp x y with
  | lt => exact .inl rfl
  | eq => rw [← cmp_eq x y hc]; exact .inr h
  | gt =>
    have : cmp y x = .lt := by rw [cmp_swap x y, hc]; rfl
    exact .inr (cmp_trans _ _ _ this h)
  | typeErr => simp [hc] at hxy
  | partialOrd => simp [hc] at hxy

theorem insertS_perm (p : PV × PV) (ps : List (PV × PV)) : (insertS p ps).Perm (p :: ps) := by
  induction ps with
  | nil => exact List.Perm.refl _
  | cons q qs ih =>
    simp only [insertS]
    split
    · exact (List.Perm.cons q ih).trans (List.Perm.swap p q qs)
    · exact List.Perm.refl _

theorem sortS_perm (ps : List (PV × PV)) : (sortS ps).Perm ps := by
  induction ps with
  | nil => exact List.Perm.refl _
  | cons p ps ih => exact (insertS_perm p (sortS ps)).trans (List.Perm.cons p ih)

/-- "not after": `b` is not `<` `a` -/
def LeP (a b : PV × PV) : Prop := cmp b.1 a.1 ≠ .lt

def WeakP (a b : PV × PV) : Prop := weakB a.1 b.1 = true

theorem WeakP.symm {a b : PV × PV} (h : WeakP a b) : WeakP b a := weakB_symm _ _ h

theorem insertS_sorted (p : PV × PV) (ps : List (PV × PV)) (hw : ∀ q ∈ ps, WeakP q p)
    (hpw : ps.Pairwise WeakP) (hp : ps.Pairwise LeP) : (insertS p ps).Pairwise LeP := by
  induction ps with
  | nil => simp [insertS]
  | cons q qs ih =>
    rw [List.pairwise_cons] at hp hpw
    simp only [insertS]
    split
    · rename_i hlt
      refine List.pairwise_cons.2 ⟨?_, ih (fun r hr => hw r (List.mem_cons_of_mem _ hr)) hpw.2 hp.2⟩
      intro r hr
      cases (insertS_perm p qs).subset hr with
      | head =>
        intro h
        have := cmp_swap q.1 p.1
        rw [hlt, h] at this
        simp [Cmp.swap] at this
      | tail _ hr' => exact hp.1 r hr'
    · rename_i hnlt
      refine List.pairwise_cons.2 ⟨?_, List.pairwise_cons.2 hp⟩
      intro r hr
      cases hr with
      | head => exact hnlt
      | tail _ hr =>
        intro h
        rcases cmp_negtrans (y := q.1) (hpw.1 r hr).symm h with h1 | h2
        · exact hp.1 r hr h1
        · exact hnlt h2

theorem sortS_sorted (ps : List (PV × PV)) (hw : ps.Pairwise WeakP) : (sortS ps).Pairwise LeP := by
  induction ps with
  | nil => simp [sortS]
  | cons p ps ih =>
    rw [List.pairwise_cons] at hw
    simp only [sortS]
    have hpw : (sortS ps).Pairwise WeakP := ((sortS_perm ps).pairwise_iff (fun {a b} h => WeakP.symm h)).2 hw.2
    refine insertS_sorted p (sortS ps) ?_ hpw (ih hw.2)
    intro q hq
    exact (hw.1 q ((sortS_perm ps).subset hq)).symm

theorem pairwise_mem_ne {α : Type} {R : α → α → Prop} (hs : ∀ {a b}, R a b → R b a) :
    ∀ {l : List α}, l.Pairwise R → ∀ a ∈ l, ∀ b ∈ l, a ≠ b → R a b
  | [], _, a, ha, _, _, _ => by cases ha
  | x :: xs, hp, a, ha, b, hb, hne => by
    rw [List.pairwise_cons] at hp
    cases ha with
    | head =>
      cases hb with
      | head => exact absurd rfl hne
      | tail _ hb => exact hp.1 b hb
    | tail _ ha =>
      cases hb with
      | head => exact hs (hp.1 a ha)
      | tail _ hb => exact pairwise_mem_ne hs hp.2 a ha b hb hne

/-- The stable sort of totally preordered entries does not depend on the order of the input when tied entries are equal
    entries (the converse fails: `C15_sorted_ties_order_dependent`). -/
theorem sortS_eq_of_perm {ps qs : List (PV × PV)} (h : ps.Perm qs) (hw : ps.Pairwise WeakP)
    (hties : ∀ a ∈ ps, ∀ b ∈ ps, a.1 = b.1 → a = b) : sortS ps = sortS qs := by
  have hw' : qs.Pairwise WeakP := (h.pairwise_iff (fun {a b} h => WeakP.symm h)).1 hw
  refine List.Perm.eq_of_pairwise (le := LeP) ?_ (sortS_sorted ps hw) (sortS_sorted qs hw')
    ((sortS_perm ps).trans (h.trans (sortS_perm qs).symm))
  intro a b ha hb h1 h2
  have ha' := (sortS_perm ps).subset ha
  have hb' := h.symm.subset ((sortS_perm qs).subset hb)
  by_cases e : a = b
  · exact e
  · have hwab : WeakP a b := pairwise_mem_ne (fun h => WeakP.symm h) hw a ha' b hb' e
    unfold LeP at h1 h2
    unfold WeakP weakB at hwab
    have hsw := cmp_swap a.1 b.1
    have : cmp a.1 b.1 = .eq := by
      cases hc : cmp a.1 b.1 with
      | eq => rfl
      | lt => exact absurd hc h2
      | gt => rw [hc] at hsw; exact absurd hsw h1
      | typeErr => simp [hc] at hwab
      | partialOrd => simp [hc] at hwab
    exact hties a ha' b hb' (cmp_eq _ _ this)

/-- on strictly ordered keys the stable sort is the model's `isort` -/
theorem insertS_eq_insertP (p : PV × PV) (ps : List (PV × PV)) (hs : ∀ q ∈ ps, strictB p.1 q.1 = true) :
    insertS p ps = insertP p ps := by
  induction ps with
  | nil => rfl
  | cons q qs ih =>
    simp only [insertS, insertP]
    rcases strictB_cases (hs q List.mem_cons_self) with h | h
    · have hn : cmp q.1 p.1 ≠ .lt := by
        intro h'; have := cmp_swap p.1 q.1; rw [h, h'] at this; simp [Cmp.swap] at this
      rw [if_neg hn, if_pos h]
    · have hn : cmp p.1 q.1 ≠ .lt := by
        intro h'; have := cmp_swap p.1 q.1; rw [h, h'] at this; simp [Cmp.swap] at this
      rw [if_pos h, if_neg hn, ih (fun r hr => hs r (List.mem_cons_of_mem _ hr))]

theorem sortS_eq_isort (ps : List (PV × PV)) (hs : (ps.map Prod.fst).Pairwise (fun x y => strictB x y = true)) :
    sortS ps = isort ps := by
  induction ps with
  | nil => rfl
  | cons p ps ih =>
    simp only [List.map_cons, List.pairwise_cons] at hs
    simp only [sortS, isort, ih hs.2]
    apply insertS_eq_insertP
    intro q hq
    exact hs.1 q.1 (List.mem_map_of_mem ((isort_perm ps).subset hq))

theorem pairwise_weak_of_keys {ps : List (PV × PV)} (h : pairwiseB weakB (ps.map Prod.fst) = true) : ps.Pairwise WeakP := by
  have := (pairwiseB_iff _ _).1 h
  show ps.Pairwise (fun a b => weakB a.1 b.1 = true)
  exact List.pairwise_map.1 this


end PF.Hashable
