import PfModel.Lemmas.MapPieces
import PfModel.Lemmas.MapPiecesSel
import PfModel.Model.MapPiecesFlow
/-!
Data flow of a run in pieces, part 1 (for `Props/C06Flow.lean`): the structure of selections.
`selFullB` says whether the FULL index of an element of a stored array lies inside the selection `fixed_indices` makes on the
array's producer (only external axes count); `posOK` is the static, decidable relation between the MapSpec of a consumer and
the axes of the array it reads; `read_selected`: a consumer computing a selected index reads only selected elements.
-/
namespace PF.Pieces
open PF PF.Map

theorem fixedLookup_unfixed (fx : List (String × Sel)) (x : String) (h : isFixed fx x = false) : fixedLookup fx x = Sel.full := by
  unfold isFixed at h
  unfold fixedLookup
  cases hx : alookup fx x with
  | none => rfl
  | some s => rw [hx] at h; cases h

theorem extOf_map {α β} (f : α → β) : ∀ (m : List Bool) (l : List α), extOf m (l.map f) = (extOf m l).map f := by
  intro m
  induction m with
  | nil => intro l; cases l <;> simp [extOf]
  | cons b m ih =>
    intro l
    cases l with
    | nil => cases b <;> simp [extOf]
    | cons x xs => cases b <;> simp [extOf, ih]

/-- the product selection on the external key is the position-wise test on the full index -/
theorem selected_ext (fx : List (String × Sel)) : ∀ (m : List Bool) (ns : List String) (sh F : List Nat) (ls : List (List Nat)),
    selLists (extOf m (ns.map (fixedLookup fx))) (extOf m sh) = .ok ls →
    m.length = ns.length → m.length = sh.length → m.length = F.length →
    selected ls (extOf m F) = selFullB fx m ns sh F := by
  intro m
  induction m with
  | nil =>
    intro ns sh F ls h _ _ _
    cases ns <;> cases sh <;> cases F <;> simp_all [extOf, selLists, pure, Except.pure, selected, selFullB]
  | cons b m ih =>
    intro ns sh F ls h h1 h2 h3
    cases ns with
    | nil => simp at h1
    | cons x ns =>
      cases sh with
      | nil => simp at h2
      | cons d sh =>
        cases F with
        | nil => simp at h3
        | cons e F =>
          cases b with
          | false =>
            simp only [extOf, List.map_cons] at h ⊢
            simp only [selFullB]
            exact ih ns sh F ls h (by simpa using h1) (by simpa using h2) (by simpa using h3)
          | true =>
            simp only [extOf, List.map_cons, selLists, bind, Except.bind] at h ⊢
            cases hs : selIndices d (fixedLookup fx x) with
            | error err => rw [hs] at h; cases h
            | ok l =>
              rw [hs] at h
              simp only [] at h
              cases hr : selLists (extOf m (ns.map (fixedLookup fx))) (extOf m sh) with
              | error err => rw [hr] at h; cases h
              | ok ls' =>
                rw [hr] at h
                simp only [pure, Except.pure] at h
                cases h
                simp only [selected, selFullB, hs]
                rw [ih ns sh F ls' hr (by simpa using h1) (by simpa using h2) (by simpa using h3)]

/-- when no external axis of the array is fixed every element is selected -/
theorem selFullB_unfixed (fx : List (String × Sel)) : ∀ (m : List Bool) (ns : List String) (sh F : List Nat),
    (∀ x ∈ extOf m ns, isFixed fx x = false) → InRange sh F → selFullB fx m ns sh F = true := by
  intro m
  induction m with
  | nil => intro ns sh F _ _; simp [selFullB]
  | cons b m ih =>
    intro ns sh F hx hin
    cases ns with
    | nil => cases b <;> simp [selFullB]
    | cons x ns =>
      cases sh with
      | nil => cases b <;> simp [selFullB]
      | cons d sh =>
        cases F with
        | nil => cases b <;> simp [selFullB]
        | cons e F =>
          simp only [InRange] at hin
          cases b with
          | false =>
            simp only [selFullB]
            exact ih ns sh F (fun y hy => hx y (by simpa [extOf] using hy)) hin.2
          | true =>
            simp only [selFullB]
            rw [fixedLookup_unfixed fx x (hx x (by simp [extOf])), selIndices_full]
            simp only [List.contains_iff_mem, List.mem_range, Bool.and_eq_true, decide_eq_true_eq]
            exact ⟨hin.1, ih ns sh F (fun y hy => hx y (by simp [extOf, hy])) hin.2⟩

/-- what a selected external key says about one of its positions -/
theorem selected_at (fx : List (String × Sel)) : ∀ (extN : List String) (es E : List Nat) (ls : List (List Nat)),
    selLists (extN.map (fixedLookup fx)) es = .ok ls → selected ls E = true →
    ∀ (r : Nat) (n : String) (d e : Nat), extN[r]? = some n → es[r]? = some d → E[r]? = some e →
      ∃ l, selIndices d (fixedLookup fx n) = .ok l ∧ e ∈ l := by
  intro extN
  induction extN with
  | nil => intro es E ls _ _ r n d e h; simp at h
  | cons x xs ih =>
    intro es E ls hls hsel r n d e h1 h2 h3
    cases es with
    | nil => simp at h2
    | cons d0 ds =>
      cases E with
      | nil => simp at h3
      | cons e0 E' =>
        simp only [List.map_cons, selLists, bind, Except.bind] at hls
        cases hs : selIndices d0 (fixedLookup fx x) with
        | error err => rw [hs] at hls; cases hls
        | ok l =>
          rw [hs] at hls
          simp only [] at hls
          cases hr : selLists (xs.map (fixedLookup fx)) ds with
          | error err => rw [hr] at hls; cases hls
          | ok ls' =>
            rw [hr] at hls
            simp only [pure, Except.pure] at hls
            cases hls
            simp only [selected, Bool.and_eq_true, List.contains_iff_mem] at hsel
            cases r with
            | zero =>
              simp only [List.getElem?_cons_zero, Option.some.injEq] at h1 h2 h3
              subst h1; subst h2; subst h3
              exact ⟨l, hs, hsel.1⟩
            | succ r =>
              simp only [List.getElem?_cons_succ] at h1 h2 h3
              exact ih ds E' ls' hr hsel.2 r n d e h1 h2 h3

theorem inRange_get : ∀ (es E : List Nat), InRange es E → ∀ (r d : Nat), es[r]? = some d → ∃ e, E[r]? = some e ∧ e < d := by
  intro es
  induction es with
  | nil => intro E _ r d h; simp at h
  | cons d0 ds ih =>
    intro E hin r d h
    cases E with
    | nil => simp [InRange] at hin
    | cons e0 E' =>
      simp only [InRange] at hin
      cases r with
      | zero => simp only [List.getElem?_cons_zero, Option.some.injEq] at h; subst h; exact ⟨e0, by simp, hin.1⟩
      | succ r => simp only [List.getElem?_cons_succ] at h ⊢; exact ih E' hin.2 r d h

theorem inputKey_eq (ms : MSpec) (a : ASpec) (E : List Nat) : inputKey ms a E = a.axes.map (keyAt ms.externalIndices E) := by
  unfold inputKey
  apply List.map_congr_left
  intro ax _
  cases ax <;> rfl

/-- **a consumer computing a selected index reads only selected elements** (and only elements inside the array) -/
theorem read_selected (fx : List (String × Sel)) (ext : List String) (es : List Nat) (lsG : List (List Nat)) (E : List Nat)
    (hls : selLists (ext.map (fixedLookup fx)) es = .ok lsG) (hE : InRange es E) (hsel : selected lsG E = true) :
    ∀ (m : List Bool) (ns : List String) (ax : List (Option String)) (sh s : List Nat),
      posOK fx ext es m ns ax sh = true → InRange (slicedShape (ax.map (keyAt ext E)) sh) s →
      selFullB fx m ns sh (fillKey (ax.map (keyAt ext E)) s) = true ∧ InRange sh (fillKey (ax.map (keyAt ext E)) s) := by
  intro m
  induction m with
  | nil =>
    intro ns ax sh s hp hs
    cases ns <;> cases ax <;> cases sh <;> simp_all [posOK, fillKey, selFullB, InRange]
  | cons b m ih =>
    intro ns ax sh s hp hs
    cases ns with
    | nil => simp [posOK] at hp
    | cons x ns =>
      cases ax with
      | nil => simp [posOK] at hp
      | cons a ax =>
        cases sh with
        | nil => cases a <;> simp [posOK] at hp
        | cons d sh =>
          cases a with
          | none =>
            simp only [posOK, Bool.and_eq_true, Bool.or_eq_true, Bool.not_eq_true'] at hp
            simp only [List.map_cons, keyAt, slicedShape] at hs ⊢
            cases s with
            | nil => simp [InRange] at hs
            | cons s0 s' =>
              simp only [InRange] at hs
              obtain ⟨h1, h2⟩ := ih ns ax sh s' hp.2 hs.2
              simp only [fillKey, InRange]
              refine ⟨?_, hs.1, h2⟩
              cases b with
              | false => simp only [selFullB]; exact h1
              | true =>
                have hx : isFixed fx x = false := by rcases hp.1 with h | h <;> simp_all
                simp only [selFullB]
                rw [fixedLookup_unfixed fx x hx, selIndices_full]
                simp only [List.contains_iff_mem, List.mem_range, Bool.and_eq_true, decide_eq_true_eq]
                exact ⟨hs.1, h1⟩
          | some n =>
            simp only [posOK, Bool.and_eq_true, Bool.or_eq_true, Bool.not_eq_true'] at hp
            obtain ⟨⟨hf, hbx⟩, hrest⟩ := hp
            cases hq : ext.findIdx? (· = n) with
            | none => rw [hq] at hf; cases hf
            | some r =>
              rw [hq] at hf
              simp only [Bool.and_eq_true, beq_iff_eq] at hf
              obtain ⟨e, he, hlt⟩ := inRange_get es E hE r d hf.2
              have hk : keyAt ext E (some n) = some e := by
                simp only [keyAt, hq, List.getD, he, Option.getD_some]
              simp only [List.map_cons, hk, slicedShape] at hs ⊢
              obtain ⟨h1, h2⟩ := ih ns ax sh s hrest hs
              simp only [fillKey, InRange]
              refine ⟨?_, hlt, h2⟩
              cases b with
              | false => simp only [selFullB]; exact h1
              | true =>
                have hnx : n = x := by rcases hbx with h | h <;> simp_all
                subst hnx
                obtain ⟨l, hl, hmem⟩ := selected_at fx ext es E lsG hls hsel r n d e hf.1 hf.2 he
                simp only [selFullB, hl, List.contains_iff_mem, Bool.and_eq_true, decide_eq_true_eq]
                exact ⟨hmem, h1⟩

end PF.Pieces
